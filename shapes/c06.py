#!/usr/bin/env python3
"""C06/C07/C08 wrappers: every decoder on an arbitrary buffer. Table / fixed-layout decoders get a
symbolic size (<= buffer length); decoders that size a heap buffer from `size` get one harness per
concrete size around their fixed part (a heap object of symbolic size does not get through CBMC)."""
import sys
from boxlist import *

# (type, buffer bytes, unwind, quick?)  -- symbolic size
T_CLASS = [
    ("FtypBox", 32, 8, "q"), ("MvhdBox", 128, 4, "q"), ("TkhdBox", 112, 4, "q"), ("MdhdBox", 48, 5, "t"),
    ("VmhdBox", 28, 4, "q"), ("SmhdBox", 24, 4, "q"), ("SttsBox", 40, 6, "q"), ("CttsBox", 40, 6, "q"),
    ("StssBox", 32, 8, "q"), ("StszBox", 36, 8, "q"), ("StcoBox", 32, 8, "q"),
    ("Co64Box", 40, 6, "q"), ("ElstBox", 64, 7, "q"), ("MehdBox", 28, 4, "q"), ("TrexBox", 40, 4, "q"),
    ("MfhdBox", 24, 4, "q"), ("TfhdBox", 48, 4, "q"), ("TfdtBox", 28, 4, "q"), ("TrunBox", 48, 12, "q"), ("TrunBox", 32, 8, "t"), ("TrunBox", 24, 6, "q"),
    ("Tx3gBox", 54, 4, "q"), ("VpccBox", 28, 4, "q"), ("Vp09Box", 114, 4, "t"),
]
# (type, buffer bytes, unwind, [(size, tier)...]) -- concrete sizes, all >= the fixed part: with a
# concrete size below it CBMC's symbolic execution still walks the (infeasible) branch behind the
# `checked_sub` guard with the wrapped-around constant and tries to allocate 2^64-32 bytes; the
# guard itself is covered by the symbolic-size harnesses of the fixed-layout boxes.
L_CLASS = [
    ("HdlrBox", 40, 8, [(32, "q"), (33, "q"), (35, "q"), (36, "t")]),
    ("UrlBox", 24, 8, [(12, "q"), (13, "q"), (15, "q"), (16, "t")]),
    ("DataBox", 24, 6, [(0, "q"), (15, "q"), (16, "q"), (17, "q"), (19, "t")]),
    ("StscBox", 40, 6, [(40, "x")]),  # does not get through propositional reduction in 16 GB (two 32x32 checked multiplications on symbolic table values + table loops); stsc is covered by the round-trip, cut and layout families
    ("EmsgBox", 40, 31, [(30, "t"), (33, "t")]),
]


def gen(pid, fam, reader, after, attrs=""):
    body = ""
    for ty, nbytes, unwind, tier in T_CLASS:
        body += harness(tier, fam, "%s_anysize_%db" % (ty.lower(), nbytes), unwind,
                        "crate::dec_any!(%s, %d, any_size(%d), %s, %s);" % (ty, nbytes, nbytes, reader, after), attrs)
    for ty, nbytes, unwind, sizes in L_CLASS:
        for sz, tier in sizes:
            body += harness(tier, fam, "%s_size%d_%db" % (ty.lower(), sz, nbytes), unwind,
                            "crate::dec_any!(%s, %d, %d, %s, %s);" % (ty, nbytes, sz, reader, after), attrs)
    return body


STUBS = ("#[kani::stub(std::alloc::alloc, crate::common::alloc::alloc_stub)]\n"
         "#[kani::stub(std::alloc::alloc_zeroed, crate::common::alloc::alloc_zeroed_stub)]\n"
         "#[kani::stub(std::alloc::realloc, crate::common::alloc::realloc_stub)]\n")

if __name__ == "__main__":
    # C07: operation-counting reader; ops <= 4 * NB + 16 and the unwinding assertions bound the loops
    b7 = "use crate::common::rd::*;\nuse std::io::Cursor;\n\n" + gen("c07", "h07dec", "counting",
        "|r: &Counting, _s: u64| { assert!(r.ops as usize <= 4 * r.inner.get_ref().len() + 16, \"C07 stream operations are bounded linearly in the input length\"); }")
    write_gen("c07.rs", "c06.py", b7)
    # C08: allocator stubs; every request <= 4 * NB + 64
    b8 = "use crate::common::rd::*;\nuse crate::common::alloc::*;\nuse std::io::Cursor;\n\n" + gen("c08", "h08dec", "limited",
        "|_r: &Cursor<&[u8]>, _s: u64| { assert!(total() <= 16 * _r.get_ref().len() + 256, \"C08 total requested memory is bounded linearly in the input length\"); }", STUBS)
    write_gen("c08.rs", "c06.py", b8)
    body = "use crate::common::rd::*;\nuse std::io::Cursor;\n\n" + gen("c06", "h06dec", "plain", "|_r: &Cursor<&[u8]>, _s: u64| {}")
    write_gen("c06.rs", "c06.py", body)
