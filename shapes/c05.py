#!/usr/bin/env python3
"""C05 wrappers: encoder output == reference layout per (box, shape)."""
from boxlist import *
body = ""
for e in LEAVES:
    body += harness(e["tier"], "h05enc", e["name"], e["unwind"],
                    "crate::c05_encode!(%s, %s, %s, %d, %s);" % (e["ty"], e["any"], e["ref"], nb(e), e["mask"]))
write_gen("c05.rs", "c05.py", body)
