#!/usr/bin/env python3
"""C05 wrappers: encoder output == reference layout per (box, shape)."""
from boxlist import *
body = ""
for e in LEAVES:
    body += harness(e["tier"], "h05enc", e["name"], e["unwind"],
                    "crate::c05_encode!(%s, %s, %s, %d, %s);" % (e["ty"], e["any"], e["ref"], nb(e), e["mask"]))
# decode direction on reference bytes: one quick harness per box type (its last quick shape), every
# shape in the thorough tier; esds with a symbolic AudioSpecificConfig does not finish (hand-written
# concrete-configuration harnesses in c05.rs instead)
QUICK_DEC_TYPES = ("TkhdBox", "SttsBox", "StscBox", "StszBox", "TfhdBox", "TrunBox", "ElstBox", "EmsgBox", "AvcCBox", "HvcCBox", "VpccBox", "Tx3gBox", "MvexBox", "TrafBox", "DataBox", "FtypBox", "Co64Box", "MehdBox")
last_quick = {}
for e in LEAVES:
    if e["tier"] == "q":
        last_quick[e["ty"]] = e["name"]
for e in LEAVES:
    if e["name"] in ("esds", "mp4a_esds"):
        continue
    tier = "q" if (last_quick.get(e["ty"]) == e["name"] and e["ty"] in QUICK_DEC_TYPES) else "t"
    if e["tier"] == "q" and e["ty"] in ("EmsgBox",):
        tier = "q"  # both emsg versions have their own field order: decode each quick shape
    body += harness(tier, "h05dec", e["name"], e["unwind"],
                    "crate::c05_decode_ref!(%s, %s, %s, %d);" % (e["ty"], e["any"], e["ref"], nb(e)))
write_gen("c05.rs", "c05.py", body)
