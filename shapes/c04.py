#!/usr/bin/env python3
"""C04 wrappers: round trip per (box, shape)."""
from boxlist import *
body = ""
for e in LEAVES:
    body += harness("x" if e["name"] in C04_EXCLUDE else e["tier"], "h04rt", e["name"], e["unwind"],
                    "crate::c04_roundtrip!(%s, %s, %d);" % (e["ty"], e["any"], nb(e)))
write_gen("c04.rs", "c04.py", body)
