"""Master list of (box type, shape) pairs shared by the C04/C05/C06/C07/C08/C10/C11/C12 generators.
Each entry: dict(tier, name, ty, any, ref, size, unwind, mask). `size` is the encoded size in bytes
for that shape (checked by the C04 harness itself: n == box_size() and n + 8 <= NB)."""

def E(tier, name, ty, any_, ref, size, unwind, mask="|_| 0u8"):
    return dict(tier=tier, name=name, ty=ty, any=any_, ref=ref, size=size, unwind=unwind, mask=mask)

LEAVES = []
A = LEAVES.append
for b in (0, 1, 2):
    A(E("q" if b in (0, 2) else "t", "ftyp_b%d" % b, "FtypBox", "any_ftyp::<%d>()" % b, "ref_ftyp", 16 + 4 * b, b + 3))
for v in (0, 1):
    A(E("q", "mvhd_v%d" % v, "MvhdBox", "any_mvhd(%d)" % v, "ref_mvhd", 108 + 12 * v, 26))
    A(E("q", "tkhd_v%d" % v, "TkhdBox", "any_tkhd(%d)" % v, "ref_tkhd", 92 + 12 * v, 3))
    A(E("t", "mdhd_v%d" % v, "MdhdBox", "any_mdhd(%d)" % v, "ref_mdhd", 32 + 12 * v, 5))
    A(E("q", "mehd_v%d" % v, "MehdBox", "any_mehd(%d)" % v, "ref_mehd", 16 + 4 * v, 3))
    A(E("q", "tfdt_v%d" % v, "TfdtBox", "any_tfdt(%d)" % v, "ref_tfdt", 16 + 4 * v, 3))
    for e in (0, 1, 2):
        A(E("q" if e == 2 else "t", "elst_v%d_e%d" % (v, e), "ElstBox", "any_elst::<%d>(%d)" % (e, v), "ref_elst", 16 + e * (12 + 8 * v), e + 3))
for l in (0, 1, 3):
    A(E("q" if l == 3 else "t", "hdlr_l%d" % l, "HdlrBox", "any_hdlr::<%d>()" % l, "ref_hdlr", 33 + l, l + 6))
    A(E("q" if l in (0, 3) else "t", "url_l%d" % l, "UrlBox", "any_url::<%d>()" % l, "ref_url", 12 + (l + 1 if l else 0), l + 6))
    A(E("q" if l == 3 else "t", "dref_l%d" % l, "DrefBox", "any_dref::<%d>()" % l, "ref_dref", 16 + 12 + (l + 1 if l else 0), l + 6))
    A(E("q" if l == 3 else "t", "data_l%d" % l, "DataBox", "any_data::<%d>()" % l, "ref_data", 16 + l, l + 4))
A(E("q", "vmhd", "VmhdBox", "any_vmhd()", "ref_vmhd", 20, 3))
A(E("q", "smhd", "SmhdBox", "any_smhd()", "ref_smhd", 16, 3))
A(E("q", "trex", "TrexBox", "any_trex()", "ref_trex", 32, 3))
A(E("q", "mfhd", "MfhdBox", "any_mfhd()", "ref_mfhd", 16, 3))
for e in (0, 1, 2):
    t = "q" if e == 2 else "t"
    A(E("q" if e in (0, 2) else "t", "stts_e%d" % e, "SttsBox", "any_stts::<%d>()" % e, "ref_stts", 16 + 8 * e, e + 3))
    A(E(t, "ctts_e%d" % e, "CttsBox", "any_ctts::<%d>()" % e, "ref_ctts", 16 + 8 * e, e + 3))
    A(E(t, "stss_e%d" % e, "StssBox", "any_stss::<%d>()" % e, "ref_stss", 16 + 4 * e, e + 3))
    A(E(t, "stsc_e%d" % e, "StscBox", "any_stsc::<%d>()" % e, "ref_stsc", 16 + 12 * e, e + 3))
    A(E(t, "stsz_table_e%d" % e, "StszBox", "any_stsz::<%d>(false)" % e, "ref_stsz", 20 + 4 * e, e + 3))
    A(E(t, "stco_e%d" % e, "StcoBox", "any_stco::<%d>()" % e, "ref_stco", 16 + 4 * e, e + 3))
    A(E(t, "co64_e%d" % e, "Co64Box", "any_co64::<%d>()" % e, "ref_co64", 16 + 8 * e, e + 3))
A(E("q", "stsz_constant", "StszBox", "any_stsz::<0>(true)", "ref_stsz", 20, 3))
# tfhd: all 32 combinations of the five optional fields (thorough); quick: none, each alone, all
TFHD_BITS = (0x01, 0x02, 0x08, 0x10, 0x20)
for m in range(32):
    opt = sum(b for i, b in enumerate(TFHD_BITS) if m >> i & 1)
    size = 16 + (8 if opt & 1 else 0) + 4 * bin(opt & 0x3a).count("1")
    quick = m in (0, 31)
    A(E("q" if quick else "t", "tfhd_opt%02x" % opt, "TfhdBox", "any_tfhd(0x%x)" % opt, "ref_tfhd", size, 3))
# trun: all 64 flag combinations x N in {0,1,2}; quick: a covering subset
TRUN_BITS = (0x001, 0x004, 0x100, 0x200, 0x400, 0x800)
for m in range(64):
    opt = sum(b for i, b in enumerate(TRUN_BITS) if m >> i & 1)
    for n in (0, 1, 2):
        per = bin(opt & 0xf00).count("1")
        size = 16 + 4 * bin(opt & 0x5).count("1") + 4 * per * n
        quick = (n == 2 and (m in (0, 63) or opt in (0x100, 0x200, 0x800, 0x201, 0x301, 0xa05))) or (n == 0 and m == 63)
        A(E("q" if quick else "t", "trun_opt%03x_n%d" % (opt, n), "TrunBox", "any_trun::<%d>(0x%x)" % (n, opt), "ref_trun", size, n + 3))
for v in (0, 1):
    for (s, vv, m) in ((0, 0, 0), (1, 2, 3), (3, 0, 1)):
        t = "t"
        A(E(t, "emsg_v%d_s%d_v%d_m%d" % (v, s, vv, m), "EmsgBox", "any_emsg::<%d, %d, %d>(%d)" % (s, vv, m, v), "ref_emsg",
            12 + 4 + (12 if v == 0 else 16) + s + 1 + vv + 1 + m, max(s, vv, m) + 4))
A(E("t", "emsg_v0_s1_v2_m0", "EmsgBox", "any_emsg::<1, 2, 0>(0)", "ref_emsg", 12 + 4 + 12 + 2 + 3, 7))
A(E("q", "emsg_v1_utf8_m2", "EmsgBox", "any_emsg_utf8::<2>(1)", "ref_emsg", 12 + 4 + 16 + 4 + 2 + 2, 8))
A(E("q", "emsg_v0_utf8_m0", "EmsgBox", "any_emsg_utf8::<0>(0)", "ref_emsg", 12 + 4 + 12 + 4 + 2, 8))
A(E("q", "tx3g", "Tx3gBox", "any_tx3g()", "ref_tx3g", 46, 14))
A(E("q", "vpcc", "VpccBox", "any_vpcc()", "ref_vpcc", 20, 3))
A(E("q", "vp09", "Vp09Box", "any_vp09()", "ref_vp09", 106, 34))
for (s, ls, p, lp) in ((0, 0, 0, 0), (1, 4, 1, 2), (2, 1, 1, 0), (1, 0, 2, 1)):
    t = "q" if (s, ls, p, lp) == (1, 4, 1, 2) else "t"
    sz = 8 + 6 + s * (2 + ls) + 1 + p * (2 + lp)
    A(E(t, "avcc_s%dx%d_p%dx%d" % (s, ls, p, lp), "AvcCBox", "any_avcc::<%d, %d, %d, %d>()" % (s, ls, p, lp), "ref_avcc", sz, max(s, p, ls, lp) + 4))
A(E("q", "avc1_s1x4_p1x2", "Avc1Box", "any_avc1::<1, 4, 1, 2>()", "ref_avc1", 8 + 78 + 8 + 6 + 6 + 1 + 4, 34))
for (a, nu, ln) in ((0, 0, 0), (1, 1, 2), (2, 1, 0), (1, 2, 1)):
    t = "q" if (a, nu, ln) == (1, 1, 2) else "t"
    sz = 8 + 23 + a * (3 + nu * (2 + ln))
    A(E(t, "hvcc_a%d_n%dx%d" % (a, nu, ln), "HvcCBox", "any_hvcc::<%d, %d, %d>()" % (a, nu, ln), "ref_hvcc", sz, max(a, nu, ln) + 4, "hvcc_reserved_mask"))
A(E("q", "hev1_a1_n1x2", "Hev1Box", "any_hev1::<1, 1, 2>()", "ref_hev1", 8 + 78 + 8 + 23 + 3 + 4, 34, "|i: usize| if i >= 86 { hvcc_reserved_mask(i - 86) } else { 0u8 }"))
A(E("q", "esds", "EsdsBox", "any_esds()", "ref_esds", 39, 6))
A(E("q", "mp4a_esds", "Mp4aBox", "any_mp4a(true)", "ref_mp4a", 36 + 39, 6))
C04_EXCLUDE = ("esds", "mp4a_esds")  # decode with a symbolic AudioSpecificConfig does not finish (see common/boxes.rs any_esds_asc): C05 enc + C05 dec compose to the round trip
A(E("q", "mp4a_noesds", "Mp4aBox", "any_mp4a(false)", "ref_mp4a", 36, 6))


# containers: size identity (header + children), own type code, children in wire order
A(E("q", "edts_v0_e1", "EdtsBox", "any_edts::<1>(0)", "ref_edts", 8 + 16 + 12, 5))
A(E("t", "edts_v1_e2", "EdtsBox", "any_edts::<2>(1)", "ref_edts", 8 + 16 + 40, 6))
A(E("q", "mvex_trex", "MvexBox", "any_mvex(None)", "ref_mvex", 8 + 32, 5))
A(E("q", "mvex_mehd1_trex", "MvexBox", "any_mvex(Some(1))", "ref_mvex", 8 + 20 + 32, 6))
A(E("q", "traf_tfhd", "TrafBox", "any_traf::<0>(None, false)", "ref_traf", 8 + 20, 5))
A(E("q", "traf_tfhd_tfdt1_trun1", "TrafBox", "any_traf::<1>(Some(1), true)", "ref_traf", 8 + 20 + 20 + 28, 12))
A(E("q", "moof_t0", "MoofBox", "any_moof::<0>()", "ref_moof", 8 + 16, 5))
A(E("t", "moof_t2", "MoofBox", "any_moof::<2>()", "ref_moof", 8 + 16 + 2 * 28, 7))
A(E("q", "moov_mvhd", "MoovBox", "any_moov_trackless(false)", "ref_moov", 8 + 108, 27))
A(E("q", "moov_mvhd_mvex", "MoovBox", "any_moov_trackless(true)", "ref_moov", 8 + 108 + 40, 27))
A(E("q", "udta_empty", "UdtaBox", "any_udta_empty()", "ref_udta", 8, 4))
A(E("q", "stsd_mp4a", "StsdBox", "any_stsd_mp4a()", "ref_stsd", 16 + 36, 7))
A(E("q", "stsd_tx3g", "StsdBox", "any_stsd_tx3g()", "ref_stsd", 16 + 46, 15))

# Vec<u32>/Vec<u64>/Vec<FourCC> equality is a memcmp over the bytes: the unwind bound must cover it
for e in LEAVES:
    n = e["name"]
    import re as _re
    m = _re.search(r"_(?:e|b|n)(\d)$", n)
    if m and e["ty"] in ("StssBox", "StcoBox", "Co64Box", "FtypBox", "StszBox", "TrunBox"):
        e["unwind"] = max(e["unwind"], 8 * int(m.group(1)) + 3)
    if e["ty"] in ("FtypBox", "HdlrBox"):
        e["unwind"] = max(e["unwind"], 6)  # FourCC == FourCC is a 4-byte memcmp


def nb(e):
    return e["size"] + 8


def decoder_types():
    """(type, buffer bytes, unwind) per decoder for the arbitrary-bytes families: the buffer holds the
    largest enumerated shape of that type plus 8 bytes."""
    out = {}
    for e in LEAVES:
        t = e["ty"]
        cur = out.get(t, (0, 0))
        out[t] = (max(cur[0], e["size"] + 8), max(cur[1], e["unwind"]))
    return out


if __name__ == "__main__":
    print(len(LEAVES), "leaf shapes;", sum(1 for e in LEAVES if e["tier"] == "q"), "quick")


import os
HERE = os.path.dirname(os.path.abspath(__file__))
PRELUDE = ("//! GENERATED by shapes/%s -- do not edit.\n#![allow(unused_imports)]\nuse crate::common::boxes::*;\n"
           "use mp4::verif_hooks::*;\nuse mp4::*;\n\n")


def write_gen(fname, gen_name, body):
    out = os.path.join(HERE, "..", "kani", "src", "gen", fname)
    src = PRELUDE % gen_name + body
    if not os.path.exists(out) or open(out).read() != src:
        open(out, "w").write(src)


def harness(tier, fam, name, unwind, body, attrs=""):
    return "#[kani::proof]\n#[kani::unwind(%d)]\n%sfn %s_%s__%s() {\n    %s\n}\n\n" % (unwind, attrs, tier, fam, name, body)
