// Concrete replay of a counterexample found by Kani/CBMC for property C16.
// harness: c16::q_h16lang__decode_codes_8000_ffff (kani/src/c16.rs:392)
// native result, dev profile: fails: src/c16.rs:377:5: C16 language text has three letters
// native result, release profile: fails: src/c16.rs:377:5: C16 language text has three letters
// to run: bin/check C16 --replay /verif/replay/C16/q_h16lang__decode_codes_8000_ffff.rs

/// Test generated for harness `c16::q_h16lang__decode_codes_8000_ffff` 
///
/// Check for `assertion`: ""C16 language text has three letters""

#[test]
fn kani_concrete_playback_q_h16lang__decode_codes_8000_ffff_15775572093730656094() {
    let concrete_vals: Vec<Vec<u8>> = vec![
        // 65535
        vec![255, 255],
    ];
    kani::concrete_playback_run(concrete_vals, q_h16lang__decode_codes_8000_ffff);
}
