// Concrete replay of a counterexample found by Kani/CBMC for property C16.
// harness: c16::q_h16data__datatype_all_u32 (kani/src/c16.rs:322)
// native result, dev profile: fails: src/c16.rs:329:36: assertion failed: v == 21
// native result, release profile: fails: src/c16.rs:328:32: assertion failed: v == 13
// to run: bin/check C16 --replay /verif/replay/C16/q_h16data__datatype_all_u32.rs

/// Test generated for harness `c16::q_h16data__datatype_all_u32` 
///
/// Check for `assertion`: "assertion failed: v == 21"

#[test]
fn kani_concrete_playback_q_h16data__datatype_all_u32_6135067241656057242() {
    let concrete_vals: Vec<Vec<u8>> = vec![
        // 2147483669
        vec![21, 0, 0, 128],
    ];
    kani::concrete_playback_run(concrete_vals, q_h16data__datatype_all_u32);
}

/// Test generated for harness `c16::q_h16data__datatype_all_u32` 
///
/// Check for `assertion`: "assertion failed: v == 13"

#[test]
fn kani_concrete_playback_q_h16data__datatype_all_u32_7172009112864713292() {
    let concrete_vals: Vec<Vec<u8>> = vec![
        // 2147483661
        vec![13, 0, 0, 128],
    ];
    kani::concrete_playback_run(concrete_vals, q_h16data__datatype_all_u32);
}

/// Test generated for harness `c16::q_h16data__datatype_all_u32` 
///
/// Check for `assertion`: "assertion failed: v == 1"

#[test]
fn kani_concrete_playback_q_h16data__datatype_all_u32_8780618381064434403() {
    let concrete_vals: Vec<Vec<u8>> = vec![
        // 2147483649
        vec![1, 0, 0, 128],
    ];
    kani::concrete_playback_run(concrete_vals, q_h16data__datatype_all_u32);
}

/// Test generated for harness `c16::q_h16data__datatype_all_u32` 
///
/// Check for `assertion`: "assertion failed: v == 0"

#[test]
fn kani_concrete_playback_q_h16data__datatype_all_u32_8077862569975950492() {
    let concrete_vals: Vec<Vec<u8>> = vec![
        // 2147483648
        vec![0, 0, 0, 128],
    ];
    kani::concrete_playback_run(concrete_vals, q_h16data__datatype_all_u32);
}
