// Concrete replay of a counterexample found by Kani/CBMC for property C16.
// harness: c16::q_h16avc__all_65536_pairs (kani/src/c16.rs:248)
// native result, dev profile: fails: src/c16.rs:257:13: C16 Baseline only for 66 without constraint_set1
// native result, release profile: fails: src/c16.rs:257:13: C16 Baseline only for 66 without constraint_set1
// to run: bin/check C16 --replay /verif/replay/C16/q_h16avc__all_65536_pairs.rs

/// Test generated for harness `c16::q_h16avc__all_65536_pairs` 
///
/// Check for `assertion`: ""C16 Baseline only for 66 without constraint_set1""

#[test]
fn kani_concrete_playback_q_h16avc__all_65536_pairs_3491265274236442925() {
    let concrete_vals: Vec<Vec<u8>> = vec![
        // 66
        vec![66],
        // 64
        vec![64],
    ];
    kani::concrete_playback_run(concrete_vals, q_h16avc__all_65536_pairs);
}
