// Concrete replay of a counterexample found by Kani/CBMC for property C06.
// harness: c06::q_h06trk__offset_e1_s0_nochunktable (kani/src/c06.rs:89)
// native result, dev profile: fails: /repo/src/track.rs:483:26: attempt to divide by zero
// native result, release profile: fails: /repo/src/track.rs:483:26: attempt to divide by zero
// to run: bin/check C06 --replay /verif/replay/C06/q_h06trk__offset_e1_s0_nochunktable.rs

/// Test generated for harness `c06::q_h06trk__offset_e1_s0_nochunktable` 
///
/// Check for `assertion`: "attempt to divide by zero"

#[test]
fn kani_concrete_playback_q_h06trk__offset_e1_s0_nochunktable_10157048494264182408() {
    let concrete_vals: Vec<Vec<u8>> = vec![
        // 0
        vec![0, 0, 0, 0],
        // 0
        vec![0, 0, 0, 0],
        // 0
        vec![0, 0, 0, 0],
        // 2147483648
        vec![0, 0, 0, 128],
        // 0
        vec![0, 0, 0, 0],
        // 2147483648
        vec![0, 0, 0, 128],
    ];
    kani::concrete_playback_run(concrete_vals, q_h06trk__offset_e1_s0_nochunktable);
}
