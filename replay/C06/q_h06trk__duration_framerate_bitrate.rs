// Concrete replay of a counterexample found by Kani/CBMC for property C06.
// harness: c06::q_h06trk__duration_framerate_bitrate (kani/src/c06.rs:172)
// native result, dev profile: fails: /repo/src/track.rs:212:13: attempt to multiply with overflow
// native result, release profile: fails: /repo/src/track.rs:212:13: attempt to multiply with overflow
// to run: bin/check C06 --replay /verif/replay/C06/q_h06trk__duration_framerate_bitrate.rs

/// Test generated for harness `c06::q_h06trk__duration_framerate_bitrate` 
///
/// Check for `assertion`: "attempt to multiply with overflow"

#[test]
fn kani_concrete_playback_q_h06trk__duration_framerate_bitrate_14412796102201642197() {
    let concrete_vals: Vec<Vec<u8>> = vec![
        // 0
        vec![0, 0, 0, 0],
        // 0
        vec![0, 0, 0, 0],
        // 0
        vec![0, 0, 0, 0],
        // 0
        vec![0, 0, 0, 0],
        // 18446744073709551615ul
        vec![255, 255, 255, 255, 255, 255, 255, 255],
        // 0
        vec![0, 0, 0, 0],
        // 2147483648
        vec![0, 0, 0, 128],
        // 2147483648
        vec![0, 0, 0, 128],
        // 118
        vec![118],
        // 98
        vec![98],
        // 117
        vec![117],
        // 110
        vec![110],
    ];
    kani::concrete_playback_run(concrete_vals, q_h06trk__duration_framerate_bitrate);
}

/// Test generated for harness `c06::q_h06trk__duration_framerate_bitrate` 
///
/// Check for `assertion`: "attempt to divide by zero"

#[test]
fn kani_concrete_playback_q_h06trk__duration_framerate_bitrate_15462775913703450902() {
    let concrete_vals: Vec<Vec<u8>> = vec![
        // 0
        vec![0, 0, 0, 0],
        // 0
        vec![0, 0, 0, 0],
        // 0
        vec![0, 0, 0, 0],
        // 0
        vec![0, 0, 0, 0],
        // 798863917055ul
        vec![255, 255, 255, 255, 185, 0, 0, 0],
        // 0
        vec![0, 0, 0, 0],
        // 2147483648
        vec![0, 0, 0, 128],
        // 2147483648
        vec![0, 0, 0, 128],
        // 118
        vec![118],
        // 98
        vec![98],
        // 117
        vec![117],
        // 110
        vec![110],
    ];
    kani::concrete_playback_run(concrete_vals, q_h06trk__duration_framerate_bitrate);
}
