// Concrete replay of a counterexample found by Kani/CBMC for property C06.
// harness: gen::c06::q_h06dec__databox_size0_24b (kani/src/gen/c06.rs:208)
// native result, dev profile: fails: /repo/src/mp4box/data.rs:58:34: attempt to subtract with overflow
// native result, release profile: fails: /repo/src/mp4box/data.rs:58:34: attempt to subtract with overflow
// to run: bin/check C06 --replay /verif/replay/C06/q_h06dec__databox_size0_24b.rs

/// Test generated for harness `gen::c06::q_h06dec__databox_size0_24b` 
///
/// Check for `assertion`: "attempt to subtract with overflow"

#[test]
fn kani_concrete_playback_q_h06dec__databox_size0_24b_12627341991627713786() {
    let concrete_vals: Vec<Vec<u8>> = vec![
        // 0
        vec![0],
        // 0
        vec![0],
        // 0
        vec![0],
        // 0
        vec![0],
        // 0
        vec![0],
        // 0
        vec![0],
        // 0
        vec![0],
        // 0
        vec![0],
        // 0
        vec![0],
        // 0
        vec![0],
        // 0
        vec![0],
        // 0
        vec![0],
        // 0
        vec![0],
        // 0
        vec![0],
        // 0
        vec![0],
        // 0
        vec![0],
        // 0
        vec![0],
        // 0
        vec![0],
        // 0
        vec![0],
        // 0
        vec![0],
        // 0
        vec![0],
        // 0
        vec![0],
        // 0
        vec![0],
        // 0
        vec![0],
    ];
    kani::concrete_playback_run(concrete_vals, q_h06dec__databox_size0_24b);
}
