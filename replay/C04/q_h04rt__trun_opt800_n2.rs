// Concrete replay of a counterexample found by Kani/CBMC for property C04.
// harness: gen::c04::q_h04rt__trun_opt800_n2 (kani/src/gen/c04.rs:1129)
// native result, dev profile: fails: src/gen/c04.rs:1132:5: C04 encoding a representable value succeeds
// native result, release profile: fails: src/gen/c04.rs:1132:5: C04 encoding a representable value succeeds
// to run: bin/check C04 --replay /verif/replay/C04/q_h04rt__trun_opt800_n2.rs

/// Test generated for harness `gen::c04::q_h04rt__trun_opt800_n2` 
///
/// Check for `assertion`: ""C04 encoding a representable value succeeds""

#[test]
fn kani_concrete_playback_q_h04rt__trun_opt800_n2_724626133376248435() {
    let concrete_vals: Vec<Vec<u8>> = vec![
        // 0
        vec![0, 0, 0, 0],
        // 0
        vec![0, 0, 0, 0],
        // 0
        vec![0, 0, 0, 0],
        // 0
        vec![0, 0, 0, 0],
        // 0
        vec![0, 0, 0, 0],
        // 0
        vec![0, 0, 0, 0],
        // 0
        vec![0, 0, 0, 0],
        // 0
        vec![0, 0, 0, 0],
        // 0
        vec![0],
        // 0
        vec![0],
        // 0
        vec![0],
        // 0
        vec![0],
        // 0
        vec![0],
        // 0
        vec![0],
        // 0
        vec![0],
        // 0
        vec![0],
        // 0
        vec![0],
        // 0
        vec![0],
        // 0
        vec![0],
        // 0
        vec![0],
        // 0
        vec![0],
        // 0
        vec![0],
        // 0
        vec![0],
        // 0
        vec![0],
        // 0
        vec![0],
        // 0
        vec![0],
        // 0
        vec![0],
        // 0
        vec![0],
        // 0
        vec![0],
        // 0
        vec![0],
        // 0
        vec![0],
        // 0
        vec![0],
        // 0
        vec![0],
        // 0
        vec![0],
        // 0
        vec![0],
        // 0
        vec![0],
        // 0
        vec![0],
        // 0
        vec![0],
        // 0
        vec![0],
        // 0
        vec![0],
        // 0
        vec![0],
    ];
    kani::concrete_playback_run(concrete_vals, q_h04rt__trun_opt800_n2);
}
