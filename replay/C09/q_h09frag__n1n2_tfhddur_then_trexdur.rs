// Concrete replay of a counterexample found by Kani/CBMC for property C09.
// harness: c09::q_h09frag__n1n2_tfhddur_then_trexdur (kani/src/c09.rs:178)
// native result, dev profile: fails: src/c09.rs:142:17: C09 start = fragment base decode time + earlier durations in the run
// native result, release profile: fails: src/c09.rs:142:17: C09 start = fragment base decode time + earlier durations in the run
// to run: bin/check C09 --replay /verif/replay/C09/q_h09frag__n1n2_tfhddur_then_trexdur.rs

/// Test generated for harness `c09::q_h09frag__n1n2_tfhddur_then_trexdur` 
///
/// Check for `assertion`: ""C09 offset of an existing sample is found""

#[test]
fn kani_concrete_playback_q_h09frag__n1n2_tfhddur_then_trexdur_10791331228354699655() {
    let concrete_vals: Vec<Vec<u8>> = vec![
        // 4611686018427387903ul
        vec![255, 255, 255, 255, 255, 255, 255, 63],
        // 4611686018427387903ul
        vec![255, 255, 255, 255, 255, 255, 255, 63],
        // -1
        vec![255, 255, 255, 255],
        // 4294967295
        vec![255, 255, 255, 255],
        // 4611686018427387903ul
        vec![255, 255, 255, 255, 255, 255, 255, 63],
        // 4294967295
        vec![255, 255, 255, 255],
        // 4294967295
        vec![255, 255, 255, 255],
        // 4294967295
        vec![255, 255, 255, 255],
        // 4611686018427387903ul
        vec![255, 255, 255, 255, 255, 255, 255, 63],
        // 2147483647ul
        vec![255, 255, 255, 127, 0, 0, 0, 0],
        // -2147483648
        vec![0, 0, 0, 128],
        // 4294967295
        vec![255, 255, 255, 255],
        // 4611686018427387903ul
        vec![255, 255, 255, 255, 255, 255, 255, 63],
        // 4294967295
        vec![255, 255, 255, 255],
        // 4294967295
        vec![255, 255, 255, 255],
        // 4294967295
        vec![255, 255, 255, 255],
        // 4294967295
        vec![255, 255, 255, 255],
        // 4294967295
        vec![255, 255, 255, 255],
        // 4294967295
        vec![255, 255, 255, 255],
        // 4294967295
        vec![255, 255, 255, 255],
        // 3
        vec![3, 0, 0, 0],
    ];
    kani::concrete_playback_run(concrete_vals, q_h09frag__n1n2_tfhddur_then_trexdur);
}

/// Test generated for harness `c09::q_h09frag__n1n2_tfhddur_then_trexdur` 
///
/// Check for `assertion`: ""C09 start = fragment base decode time + earlier durations in the run""

#[test]
fn kani_concrete_playback_q_h09frag__n1n2_tfhddur_then_trexdur_10382769830745803173() {
    let concrete_vals: Vec<Vec<u8>> = vec![
        // 4611686018427387903ul
        vec![255, 255, 255, 255, 255, 255, 255, 63],
        // 662133251ul
        vec![3, 90, 119, 39, 0, 0, 0, 0],
        // -1
        vec![255, 255, 255, 255],
        // 0
        vec![0, 0, 0, 0],
        // 4611686015921990310ul
        vec![166, 170, 170, 106, 255, 255, 255, 63],
        // 6499644
        vec![60, 45, 99, 0],
        // 4294967295
        vec![255, 255, 255, 255],
        // 4294967295
        vec![255, 255, 255, 255],
        // 4611686018427387903ul
        vec![255, 255, 255, 255, 255, 255, 255, 63],
        // 662133251ul
        vec![3, 90, 119, 39, 0, 0, 0, 0],
        // -1458939139
        vec![253, 90, 10, 169],
        // 4294967295
        vec![255, 255, 255, 255],
        // 41875930808ul
        vec![184, 254, 255, 191, 9, 0, 0, 0],
        // 3741252737
        vec![129, 252, 254, 222],
        // 3741253052
        vec![188, 253, 254, 222],
        // 4294967295
        vec![255, 255, 255, 255],
        // 4294967295
        vec![255, 255, 255, 255],
        // 4294967295
        vec![255, 255, 255, 255],
        // 4294967295
        vec![255, 255, 255, 255],
        // 2147483962
        vec![58, 1, 0, 128],
        // 2
        vec![2, 0, 0, 0],
    ];
    kani::concrete_playback_run(concrete_vals, q_h09frag__n1n2_tfhddur_then_trexdur);
}

/// Test generated for harness `c09::q_h09frag__n1n2_tfhddur_then_trexdur` 
///
/// Check for `assertion`: "attempt to multiply with overflow"

#[test]
fn kani_concrete_playback_q_h09frag__n1n2_tfhddur_then_trexdur_10739460160166716576() {
    let concrete_vals: Vec<Vec<u8>> = vec![
        // 4611686018427387903ul
        vec![255, 255, 255, 255, 255, 255, 255, 63],
        // 4611686018427387903ul
        vec![255, 255, 255, 255, 255, 255, 255, 63],
        // -1
        vec![255, 255, 255, 255],
        // 4294967295
        vec![255, 255, 255, 255],
        // 4611686018427387903ul
        vec![255, 255, 255, 255, 255, 255, 255, 63],
        // 4294967295
        vec![255, 255, 255, 255],
        // 4294967295
        vec![255, 255, 255, 255],
        // 4294967295
        vec![255, 255, 255, 255],
        // 4611686018427387903ul
        vec![255, 255, 255, 255, 255, 255, 255, 63],
        // 4611686018427387902ul
        vec![254, 255, 255, 255, 255, 255, 255, 63],
        // -2147483646
        vec![2, 0, 0, 128],
        // 4294967295
        vec![255, 255, 255, 255],
        // 4611686018427387903ul
        vec![255, 255, 255, 255, 255, 255, 255, 63],
        // 3758088381
        vec![189, 224, 255, 223],
        // 4294967295
        vec![255, 255, 255, 255],
        // 4294967295
        vec![255, 255, 255, 255],
        // 4294967295
        vec![255, 255, 255, 255],
        // 4294967295
        vec![255, 255, 255, 255],
        // 4294967295
        vec![255, 255, 255, 255],
        // 2147483648
        vec![0, 0, 0, 128],
        // 3
        vec![3, 0, 0, 0],
    ];
    kani::concrete_playback_run(concrete_vals, q_h09frag__n1n2_tfhddur_then_trexdur);
}
