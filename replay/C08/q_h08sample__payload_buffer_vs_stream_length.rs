// Concrete replay of a counterexample found by Kani/CBMC for property C08.
// harness: c08::q_h08sample__payload_buffer_vs_stream_length (kani/src/c08.rs:29)
// native result, dev profile: passes
// native result, release profile: passes
// to run: bin/check C08 --replay /verif/replay/C08/q_h08sample__payload_buffer_vs_stream_length.rs

/// Test generated for harness `c08::q_h08sample__payload_buffer_vs_stream_length` 
///
/// Check for `assertion`: ""C08 a single allocation request is bounded by a linear function of the input length""
///
/// # Warning
///
/// Concrete playback tests combined with stubs or contracts is highly
/// experimental, and subject to change.
///
/// The original harness has stubs which are not applied to this test.
/// This may cause a mismatch of non-deterministic values if the stub
/// creates any non-deterministic value.
/// The execution path may also differ, which can be used to refine the stub
/// logic.

#[test]
fn kani_concrete_playback_q_h08sample__payload_buffer_vs_stream_length_16283104597685772399() {
    let concrete_vals: Vec<Vec<u8>> = vec![
        // 256
        vec![0, 1, 0, 0],
        // 8
        vec![8, 0, 0, 0],
        // 0
        vec![0],
        // 0
        vec![0],
        // 0
        vec![0],
        // 0
        vec![0],
        // 0
        vec![0],
        // 0
        vec![0],
        // 0
        vec![0],
        // 0
        vec![0],
        // 0
        vec![0],
        // 0
        vec![0],
        // 0
        vec![0],
        // 0
        vec![0],
        // 0
        vec![0],
        // 0
        vec![0],
        // 0
        vec![0],
        // 0
        vec![0],
    ];
    kani::concrete_playback_run(concrete_vals, q_h08sample__payload_buffer_vs_stream_length);
}
