// Concrete replay of a counterexample found by Kani/CBMC for property C08.
// harness: gen::c08::q_h08dec__databox_size15_24b (kani/src/gen/c08.rs:317)
// native result, dev profile: fails: /repo/src/mp4box/data.rs:58:34: attempt to subtract with overflow
// native result, release profile: fails: /repo/src/mp4box/data.rs:58:34: attempt to subtract with overflow
// to run: bin/check C08 --replay /verif/replay/C08/q_h08dec__databox_size15_24b.rs

/// Test generated for harness `gen::c08::q_h08dec__databox_size15_24b` 
///
/// Check for `assertion`: "attempt to subtract with overflow"
///
/// # Warning
///
/// Concrete playback tests combined with stubs or contracts is highly
/// experimental, and subject to change.
///
/// The original harness has stubs which are not applied to this test.
/// This may cause a mismatch of non-deterministic values if the stub
/// creates any non-deterministic value.
/// The execution path may also differ, which can be used to refine the stub
/// logic.

#[test]
fn kani_concrete_playback_q_h08dec__databox_size15_24b_12226182656041505657() {
    let concrete_vals: Vec<Vec<u8>> = vec![
        // 0
        vec![0],
        // 0
        vec![0],
        // 0
        vec![0],
        // 0
        vec![0],
        // 0
        vec![0],
        // 0
        vec![0],
        // 0
        vec![0],
        // 0
        vec![0],
        // 0
        vec![0],
        // 0
        vec![0],
        // 0
        vec![0],
        // 0
        vec![0],
        // 0
        vec![0],
        // 0
        vec![0],
        // 0
        vec![0],
        // 0
        vec![0],
        // 0
        vec![0],
        // 0
        vec![0],
        // 0
        vec![0],
        // 0
        vec![0],
        // 0
        vec![0],
        // 0
        vec![0],
        // 0
        vec![0],
        // 0
        vec![0],
    ];
    kani::concrete_playback_run(concrete_vals, q_h08dec__databox_size15_24b);
}
