// Concrete replay of a counterexample found by Kani/CBMC for property C03.
// harness: gen::c03::q_h03stts__e3_counts0to3 (kani/src/gen/c03.rs:911)
// native result, dev profile: fails: src/c03.rs:263:13: C03 start time = sum of earlier deltas
// native result, release profile: fails: src/c03.rs:263:13: C03 start time = sum of earlier deltas
// to run: bin/check C03 --replay /verif/replay/C03/q_h03stts__e3_counts0to3.rs

/// Test generated for harness `gen::c03::q_h03stts__e3_counts0to3` 
///
/// Check for `assertion`: ""C03 start time = sum of earlier deltas""

#[test]
fn kani_concrete_playback_q_h03stts__e3_counts0to3_8299930865789156129() {
    let concrete_vals: Vec<Vec<u8>> = vec![
        // 3
        vec![3, 0, 0, 0],
        // 3
        vec![3, 0, 0, 0],
        // 3
        vec![3, 0, 0, 0],
        // 44739245
        vec![173, 170, 170, 2],
        // 826871844
        vec![36, 16, 73, 49],
        // 35718060
        vec![172, 3, 33, 2],
        // 8
        vec![8, 0, 0, 0],
    ];
    kani::concrete_playback_run(concrete_vals, q_h03stts__e3_counts0to3);
}
