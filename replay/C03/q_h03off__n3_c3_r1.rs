// Concrete replay of a counterexample found by Kani/CBMC for property C03.
// harness: gen::c03::q_h03off__n3_c3_r1 (kani/src/gen/c03.rs:71)
// native result, dev profile: fails: /repo/src/track.rs:495:17: attempt to add with overflow
// native result, release profile: passes
// to run: bin/check C03 --replay /verif/replay/C03/q_h03off__n3_c3_r1.rs

/// Test generated for harness `gen::c03::q_h03off__n3_c3_r1` 
///
/// Check for `assertion`: "attempt to add with overflow"

#[test]
fn kani_concrete_playback_q_h03off__n3_c3_r1_8336616134146466596() {
    let concrete_vals: Vec<Vec<u8>> = vec![
        // 2305843024637547862ul
        vec![86, 85, 85, 151, 3, 0, 0, 32],
        // 4294967295
        vec![255, 255, 255, 255],
        // 4294967295
        vec![255, 255, 255, 255],
        // 4294967295
        vec![255, 255, 255, 255],
        // 1
        vec![1],
        // 0
        vec![0],
        // 4048901458
        vec![82, 85, 85, 241],
        // 3
        vec![3, 0, 0, 0],
    ];
    kani::concrete_playback_run(concrete_vals, q_h03off__n3_c3_r1);
}
