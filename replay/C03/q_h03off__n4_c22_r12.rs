// Concrete replay of a counterexample found by Kani/CBMC for property C03.
// harness: gen::c03::q_h03off__n4_c22_r12 (kani/src/gen/c03.rs:167)
// native result, dev profile: fails: src/c03.rs:91:26: C03 sample_offset == chunk offset + earlier sizes in the chunk
// native result, release profile: fails: src/c03.rs:91:26: C03 sample_offset == chunk offset + earlier sizes in the chunk
// to run: bin/check C03 --replay /verif/replay/C03/q_h03off__n4_c22_r12.rs

/// Test generated for harness `gen::c03::q_h03off__n4_c22_r12` 
///
/// Check for `assertion`: ""C03 sample_offset == chunk offset + earlier sizes in the chunk""

#[test]
fn kani_concrete_playback_q_h03off__n4_c22_r12_10017024715999857792() {
    let concrete_vals: Vec<Vec<u8>> = vec![
        // 4202102713ul
        vec![185, 255, 118, 250, 0, 0, 0, 0],
        // 1996470713ul
        vec![185, 185, 255, 118, 0, 0, 0, 0],
        // 2407530634
        vec![138, 0, 128, 143],
        // 2399142026
        vec![138, 0, 0, 143],
        // 260046986
        vec![138, 0, 128, 15],
        // 2399142026
        vec![138, 0, 0, 143],
        // 1
        vec![1],
        // 0
        vec![0],
        // 2
        vec![2, 0, 0, 0],
        // 4
        vec![4, 0, 0, 0],
    ];
    kani::concrete_playback_run(concrete_vals, q_h03off__n4_c22_r12);
}
