//! C18 — metadata accessors return the tags the file encodes. Unit level: the real MetaBox /
//! IlstBox / IlstItemBox / DataBox decoders on reference-encoded input with symbolic payloads, and
//! the real `Metadata` impls on what they return. `Mp4Reader::metadata()` itself only selects
//! moov.udta.meta(mdir).ilst (reader glue); `select` below is that selection, written out.
use crate::common::boxes::*;
use crate::common::refw::RefW;
use mp4::verif_hooks::*;
use mp4::*;
use std::io::Cursor;

/// what Mp4Reader::metadata() hands to the accessors
fn select(udta: &Option<UdtaBox>) -> Option<&IlstBox> {
    udta.as_ref().and_then(|u| {
        u.meta.as_ref().and_then(|m| match m {
            MetaBox::Mdir { ilst } => ilst.as_ref(),
            _ => None,
        })
    })
}

fn all_absent(m: &Option<&IlstBox>) {
    assert!(m.title().is_none(), "C18 title absent");
    assert!(m.year().is_none(), "C18 year absent");
    assert!(m.poster().is_none(), "C18 poster absent");
    assert!(m.summary().is_none(), "C18 summary absent");
}

/// movies without metadata / without meta
#[kani::proof]
#[kani::unwind(4)]
fn q_h18abs__no_udta_and_udta_without_meta() {
    let none: Option<UdtaBox> = None;
    all_absent(&select(&none));
    let empty = Some(UdtaBox { meta: None });
    all_absent(&select(&empty));
    kani::cover!(true, "absent");
    std::mem::forget(empty);
}

/// build `meta` bytes: optional version/flags word, hdlr with the given handler, then `extra` bytes
fn meta_bytes(out: &mut [u8], full: bool, handler: &[u8; 4], extra: &[u8]) -> usize {
    let mut w = RefW::new(out);
    let s = w.begin(b"meta");
    if full {
        w.u32(0);
    }
    let h = w.begin_full(b"hdlr", 0, 0);
    w.zeros(4);
    w.cc(handler);
    w.zeros(12);
    w.u8(0);
    w.end(h);
    w.bytes(extra);
    w.end(s);
    w.p
}

fn decode_meta(bytes: &[u8], n: usize) -> Option<MetaBox> {
    let mut r = Cursor::new(bytes);
    match BoxHeader::read(&mut r) {
        Ok(h) => match MetaBox::read_box(&mut r, h.size) {
            Ok(m) => Some(m),
            Err(e) => {
                std::mem::forget(e);
                None
            }
        },
        Err(e) => {
            std::mem::forget(e);
            None
        }
    }
}

/// metadata with a handler other than 'mdir' (symbolic), with and without the version/flags word:
/// decodes, and the accessors report absence.
fn h18_other_handler(full: bool) {
    let handler: [u8; 4] = kani::any();
    kani::assume(handler != *b"mdir");
    let mut buf = [0u8; 64];
    let n = meta_bytes(&mut buf, full, &handler, &[]);
    match decode_meta(&buf[..n], n) {
        Some(m) => {
            assert!(matches!(m, MetaBox::Unknown { .. }), "C18 a handler other than mdir is not iTunes metadata");
            let u = Some(UdtaBox { meta: Some(m) });
            // no item list is selected: the accessors run on None (q_h18abs__no_udta... decides those)
            assert!(select(&u).is_none(), "C18 metadata with a different handler reports absence");
            kani::cover!(true, "decoded");
            std::mem::forget(u);
        }
        None => assert!(false, "C18 a meta box with another handler is accepted"),
    }
}
#[kani::proof]
#[kani::unwind(12)]
fn q_h18abs__other_handler_with_version_word() {
    h18_other_handler(true)
}
#[kani::proof]
#[kani::unwind(12)]
fn q_h18abs__other_handler_without_version_word() {
    h18_other_handler(false)
}

/// 'mdir' metadata without an item list, with and without the version/flags word.
fn h18_mdir_no_ilst(full: bool) {
    let mut buf = [0u8; 64];
    let n = meta_bytes(&mut buf, full, b"mdir", &[]);
    match decode_meta(&buf[..n], n) {
        Some(m) => {
            assert!(matches!(m, MetaBox::Mdir { ilst: None }), "C18 mdir metadata without ilst");
            let u = Some(UdtaBox { meta: Some(m) });
            assert!(select(&u).is_none(), "C18 mdir metadata without an item list reports absence");
            kani::cover!(true, "decoded");
            std::mem::forget(u);
        }
        None => assert!(false, "C18 mdir metadata without an item list is accepted"),
    }
}
#[kani::proof]
#[kani::unwind(12)]
fn q_h18abs__mdir_no_ilst_with_version_word() {
    h18_mdir_no_ilst(true)
}
#[kani::proof]
#[kani::unwind(12)]
fn q_h18abs__mdir_no_ilst_without_version_word() {
    h18_mdir_no_ilst(false)
}

/// ilst bytes: optional unknown item (symbolic type, P payload bytes), then optionally one known
/// item `code` whose data box has type `dtype` and `L` payload bytes.
fn ilst_bytes<const L: usize>(out: &mut [u8], unknown: bool, known: Option<(&[u8; 4], u32, &[u8; L])>) -> usize {
    let mut w = RefW::new(out);
    let s = w.begin(b"ilst");
    if unknown {
        let ty: [u8; 4] = kani::any();
        kani::assume(ty[0] == b'z');
        let junk: [u8; 3] = kani::any();
        let f = w.begin(&ty);
        w.bytes(&junk);
        w.end(f);
    }
    if let Some((code, dtype, payload)) = known {
        let i = w.begin(code);
        let d = w.begin(b"data");
        w.u32(dtype);
        w.u32(0);
        w.bytes(&payload[..]);
        w.end(d);
        w.end(i);
    }
    w.end(s);
    w.p
}

/// `mdir` metadata with an item list that is empty or holds only unknown items.
fn h18_mdir_ilst_no_known(unknown: bool) {
    let mut il = [0u8; 32];
    let ni = ilst_bytes::<0>(&mut il, unknown, None);
    let mut buf = [0u8; 96];
    let n = meta_bytes(&mut buf, true, b"mdir", &il[..ni]);
    match decode_meta(&buf[..n], n) {
        Some(m) => {
            assert!(matches!(m, MetaBox::Mdir { ilst: Some(_) }), "C18 mdir metadata with an item list");
            let u = Some(UdtaBox { meta: Some(m) });
            // an item list without known items is an empty map: every lookup misses
            assert!(select(&u).map(|i| i.items.is_empty()) == Some(true), "C18 unknown items never reach the map");
            kani::cover!(true, "decoded");
            std::mem::forget(u);
        }
        None => assert!(false, "C18 mdir metadata is accepted"),
    }
}
#[kani::proof]
#[kani::unwind(12)]
fn t_h18abs__mdir_empty_ilst() {
    h18_mdir_ilst_no_known(false)
}
#[kani::proof]
#[kani::unwind(24)] // the 19-byte item list is copied by RefW::bytes
fn t_h18abs__mdir_ilst_unknown_items_only() {
    h18_mdir_ilst_no_known(true)
}

/// One known item with L payload bytes of type `dtype`, preceded by an unknown item: the matching
/// accessor returns exactly the encoded value, the others report absence.
fn h18_one<const L: usize>(which: u8, dtype: u32) {
    let payload: [u8; L] = kani::any();
    if dtype == 1 {
        // text: ASCII so that UTF-8 decoding is the identity
        let mut i = 0;
        while i < L {
            kani::assume(payload[i] < 0x80);
            i += 1;
        }
    }
    let code: [u8; 4] = match which {
        0 => [0xa9, b'n', b'a', b'm'],
        1 => [0xa9, b'd', b'a', b'y'],
        2 => *b"covr",
        _ => *b"desc",
    };
    let mut il = [0u8; 64];
    let ni = ilst_bytes::<L>(&mut il, true, Some((&code, dtype, &payload)));
    let mut r = Cursor::new(&il[..ni]);
    r.set_position(8);
    match IlstBox::read_box(&mut r, ni as u64) {
        Ok(ilst) => {
            let m = Some(&ilst);
            match which {
                0 => {
                    match m.title() {
                        Some(t) => {
                            let b = t.as_bytes();
                            assert!(b.len() == L, "C18 title text");
                            let i: usize = kani::any();
                            kani::assume(i < L);
                            assert!(b[i] == payload[i], "C18 title text");
                            std::mem::forget(t);
                        }
                        None => assert!(false, "C18 encoded title is returned"),
                    }
                    assert!(m.year().is_none() && m.poster().is_none() && m.summary().is_none(), "C18 other items absent");
                }
                1 => {
                    let y = m.year();
                    if dtype == 0 {
                        if L == 4 {
                            let want = ((payload[0] as u32) << 24) | ((payload[1] as u32) << 16) | ((payload[2] as u32) << 8) | payload[3] as u32;
                            assert!(y == Some(want), "C18 year from its 4-byte binary form");
                        } else {
                            assert!(y.is_none(), "C18 a binary year that is not 4 bytes long is absent");
                        }
                    }
                    assert!(m.title().is_none() && m.poster().is_none() && m.summary().is_none(), "C18 other items absent");
                }
                2 => {
                    match m.poster() {
                        Some(p) => {
                            assert!(p.len() == L, "C18 poster bytes verbatim");
                            let i: usize = kani::any();
                            kani::assume(i < L);
                            assert!(p[i] == payload[i], "C18 poster bytes verbatim");
                        }
                        None => assert!(false, "C18 encoded poster is returned"),
                    }
                    assert!(m.title().is_none() && m.year().is_none() && m.summary().is_none(), "C18 other items absent");
                }
                _ => {
                    assert!(m.summary().is_some(), "C18 encoded summary is returned");
                    assert!(m.title().is_none() && m.year().is_none() && m.poster().is_none(), "C18 other items absent");
                }
            }
            kani::cover!(true, "decoded");
            std::mem::forget(ilst);
        }
        Err(e) => {
            std::mem::forget(e);
            assert!(false, "C18 the item list is accepted");
        }
    }
}
// One HashMap insert + lookups (SipHash with the real RandomState, hashbrown probing) runs out of
// 16 GB in propositional reduction: excluded (x_), kept for reference. The value-level behaviour of
// the items is decided below without the map, through the item conversion functions.
#[kani::proof]
#[kani::unwind(12)]
fn x_h18one__year_binary_4_bytes() {
    h18_one::<4>(1, 0)
}
#[kani::proof]
#[kani::unwind(12)]
fn x_h18one__year_binary_5_bytes() {
    h18_one::<5>(1, 0)
}
#[kani::proof]
#[kani::unwind(12)]
fn x_h18one__poster_image_3_bytes() {
    h18_one::<3>(2, 13)
}
#[kani::proof]
#[kani::unwind(12)]
fn x_h18one__title_text_2_bytes() {
    h18_one::<2>(0, 1)
}

/// Item level, without the map: the real IlstItemBox / DataBox decoders on reference bytes, then
/// the crate's item conversions (what title()/year()/poster()/summary() apply to the item found).
fn item_of<const L: usize>(dtype: u32, payload: &[u8; L]) -> Option<IlstItemBox> {
    let mut b = [0u8; 48]; // 8 item + 10 unknown child + 16 data header + up to 8 payload bytes
    let n = {
        let mut w = RefW::new(&mut b);
        let i = w.begin(b"covr");
        let junk: [u8; 2] = kani::any();
        let f = w.begin(b"zzzz");
        w.bytes(&junk);
        w.end(f);
        let d = w.begin(b"data");
        w.u32(dtype);
        w.u32(0);
        w.bytes(&payload[..]);
        w.end(d);
        w.end(i);
        w.p
    };
    let mut r = Cursor::new(&b[..n]);
    r.set_position(8);
    match IlstItemBox::read_box(&mut r, n as u64) {
        Ok(i) => Some(i),
        Err(e) => {
            std::mem::forget(e);
            None
        }
    }
}

fn h18_year_binary<const L: usize>() {
    let payload: [u8; L] = kani::any();
    match item_of::<L>(0, &payload) {
        Some(item) => {
            assert!(item.data.data_type == DataType::Binary && item.data.data.len() == L, "C18 data box decodes to its type and payload");
            let y = verif_item_to_u32(&item);
            if L == 4 {
                let want = ((payload[0 % L.max(1)] as u32) << 24) | ((payload[1 % L.max(1)] as u32) << 16) | ((payload[2 % L.max(1)] as u32) << 8) | payload[3 % L.max(1)] as u32;
                assert!(y == Some(want), "C18 year from its 4-byte binary form");
            } else {
                assert!(y.is_none(), "C18 a binary year that is not 4 bytes long is absent");
            }
            let p = verif_item_to_bytes(&item);
            assert!(p.len() == L, "C18 poster bytes verbatim");
            if L > 0 {
                let i: usize = kani::any();
                kani::assume(i < L);
                assert!(p[i] == payload[i], "C18 poster bytes verbatim");
            }
            kani::cover!(true, "decoded");
            std::mem::forget(item);
        }
        None => assert!(false, "C18 the item is accepted"),
    }
}
#[kani::proof]
#[kani::unwind(12)]
fn q_h18item__binary_0_bytes() {
    h18_year_binary::<0>()
}
#[kani::proof]
#[kani::unwind(12)]
fn q_h18item__binary_3_bytes() {
    h18_year_binary::<3>()
}
#[kani::proof]
#[kani::unwind(12)]
fn q_h18item__binary_4_bytes() {
    h18_year_binary::<4>()
}
#[kani::proof]
#[kani::unwind(12)]
fn q_h18item__binary_5_bytes() {
    h18_year_binary::<5>()
}
#[kani::proof]
#[kani::unwind(14)]
fn t_h18item__binary_8_bytes() {
    h18_year_binary::<8>()
}

/// image / tempo types never give a year; text gives the decimal number (1..=2 ASCII digits here)
#[kani::proof]
#[kani::unwind(12)]
fn q_h18item__year_other_types_absent() {
    let payload: [u8; 4] = kani::any();
    let image: bool = kani::any();
    match item_of::<4>(if image { 13 } else { 21 }, &payload) {
        Some(item) => {
            assert!(verif_item_to_u32(&item).is_none(), "C18 only binary and text items carry a year");
            kani::cover!(true, "decoded");
            std::mem::forget(item);
        }
        None => assert!(false, "C18 the item is accepted"),
    }
}
#[kani::proof]
#[kani::unwind(12)]
fn t_h18item__year_text_two_digits() {
    let d: [u8; 2] = kani::any();
    kani::assume(d[0] >= b'0' && d[0] <= b'9' && d[1] >= b'0' && d[1] <= b'9');
    match item_of::<2>(1, &d) {
        Some(item) => {
            assert!(verif_item_to_u32(&item) == Some((d[0] - b'0') as u32 * 10 + (d[1] - b'0') as u32), "C18 year from its decimal text");
            kani::cover!(true, "decoded");
            std::mem::forget(item);
        }
        None => assert!(false, "C18 the item is accepted"),
    }
}
#[kani::proof]
#[kani::unwind(12)]
fn t_h18item__title_text_ascii_3_bytes() {
    let d: [u8; 3] = kani::any();
    kani::assume(d[0] < 0x80 && d[1] < 0x80 && d[2] < 0x80);
    match item_of::<3>(1, &d) {
        Some(item) => {
            let t = verif_item_to_str(&item);
            let b = t.as_bytes();
            assert!(b.len() == 3 && b[0] == d[0] && b[1] == d[1] && b[2] == d[2], "C18 text decoded as UTF-8");
            kani::cover!(true, "decoded");
            std::mem::forget(t);
            std::mem::forget(item);
        }
        None => assert!(false, "C18 the item is accepted"),
    }
}
