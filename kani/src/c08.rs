//! C08 — memory use is bounded by the input length. Decoder wrappers: gen/c08.rs.
use crate::common::alloc::*;
use crate::common::boxes::*;
use crate::common::model::*;
use crate::common::rd::*;
use mp4::verif_hooks::*;
use mp4::*;
use std::io::Cursor;

/// Vacuity witness for the mechanism itself: a request above the limit must be reported.
#[kani::proof]
#[kani::stub(std::alloc::alloc, crate::common::alloc::alloc_stub)]
#[kani::stub(std::alloc::alloc_zeroed, crate::common::alloc::alloc_zeroed_stub)]
#[kani::stub(std::alloc::realloc, crate::common::alloc::realloc_stub)]
fn q_h08self__stubs_see_vec_allocations() {
    set_limit(1 << 20);
    let n: u8 = kani::any();
    let v: Vec<u32> = Vec::with_capacity(n as usize);
    let z = vec![0u8; n as usize];
    assert!(requests() >= if n > 0 { 2 } else { 0 }, "C08 harness: allocations go through the stubs");
    assert!(total() == 5 * n as usize, "C08 harness: requested sizes are recorded");
    kani::cover!(n == 255, "a 255-element request was seen");
    std::mem::forget(v);
    std::mem::forget(z);
}

/// read_sample: the payload buffer request versus the stream length. The track is consistent except
/// that the size table claims `size` bytes for the sample; the stream has 16 bytes.
#[kani::proof]
#[kani::unwind(5)]
#[kani::stub(std::alloc::alloc, crate::common::alloc::alloc_stub)]
#[kani::stub(std::alloc::alloc_zeroed, crate::common::alloc::alloc_zeroed_stub)]
#[kani::stub(std::alloc::realloc, crate::common::alloc::realloc_stub)]
fn q_h08sample__payload_buffer_vs_stream_length() {
    let mut stbl = StblBox::default();
    stbl.stsc = stsc_from(&[Run { first_chunk: 1, spc: 1, first_sample: 1 }]);
    stbl.stsz.sample_count = 1;
    stbl.stsz.sample_size = kani::any();
    kani::assume(stbl.stsz.sample_size > 0);
    let mut co = StcoBox::default();
    co.entries.push(kani::any());
    stbl.stco = Some(co);
    stbl.stts.entries.push(SttsEntry { sample_count: 1, sample_delta: 1 });
    let track = track_from(stbl);
    let data: [u8; 16] = kani::any();
    let mut cur = Cursor::new(&data[..]);
    // n = 16 bytes of input: nothing read from it may ask for more than 4n + 64 bytes at once
    set_limit(4 * 16 + 64);
    match track.verif_read_sample(&mut cur, 1) {
        Ok(s) => std::mem::forget(s),
        Err(e) => std::mem::forget(e),
    }
    kani::cover!(true, "returned");
    std::mem::forget(track);
}
