//! C08 — memory use is bounded by the input length. Decoder wrappers: gen/c08.rs.
use crate::common::alloc::*;
use crate::common::boxes::*;
use crate::common::model::*;
use crate::common::rd::*;
use mp4::verif_hooks::*;
use mp4::*;
use std::io::Cursor;

/// Vacuity witness for the mechanism itself: a request above the limit must be reported.
#[kani::proof]
#[kani::stub(std::alloc::alloc, crate::common::alloc::alloc_stub)]
#[kani::stub(std::alloc::alloc_zeroed, crate::common::alloc::alloc_zeroed_stub)]
#[kani::stub(std::alloc::realloc, crate::common::alloc::realloc_stub)]
fn q_h08self__stubs_see_vec_allocations() {
    set_limit(1 << 20);
    let n: u8 = kani::any();
    let v: Vec<u32> = Vec::with_capacity(n as usize);
    let z = vec![0u8; n as usize];
    assert!(requests() >= if n > 0 { 2 } else { 0 }, "C08 harness: allocations go through the stubs");
    assert!(total() == 5 * n as usize, "C08 harness: requested sizes are recorded");
    kani::cover!(n == 255, "a 255-element request was seen");
    std::mem::forget(v);
    std::mem::forget(z);
}

/// read_sample: the payload buffer request versus the stream length. The track is consistent except
/// that the size table claims `size` bytes for the sample; the stream has 16 bytes.
#[kani::proof]
#[kani::unwind(5)]
#[kani::stub(std::alloc::alloc, crate::common::alloc::alloc_stub)]
#[kani::stub(std::alloc::alloc_zeroed, crate::common::alloc::alloc_zeroed_stub)]
#[kani::stub(std::alloc::realloc, crate::common::alloc::realloc_stub)]
fn q_h08sample__payload_buffer_vs_stream_length() {
    // tables are built with exact-size allocations (vec![..]): growing a Vec by push goes through the
    // realloc stub, and that path made the verdict of this harness depend on the directory the crate
    // under test is built from (observed: passes for /repo, fails for a copy elsewhere, with
    // pointer-validity failures inside Vec::push of the *harness*), i.e. it was not robust
    let mut stbl = StblBox::default();
    std::mem::forget(std::mem::replace(&mut stbl.stsc.entries, vec![StscEntry { first_chunk: 1, samples_per_chunk: 1, sample_description_index: 1, first_sample: 1 }]));
    stbl.stsz.sample_count = 1;
    stbl.stsz.sample_size = kani::any();
    kani::assume(stbl.stsz.sample_size > 0);
    let mut co = StcoBox::default();
    std::mem::forget(std::mem::replace(&mut co.entries, vec![kani::any()]));
    stbl.stco = Some(co);
    std::mem::forget(std::mem::replace(&mut stbl.stts.entries, vec![SttsEntry { sample_count: 1, sample_delta: 1 }]));
    // (the replaced empty vectors are forgotten, not dropped: dropping them is where the
    // path-dependent failure showed up)
    let mut trak = TrakBox::default();
    trak.tkhd.track_id = 1;
    std::mem::forget(std::mem::replace(&mut trak.mdia.minf.stbl, stbl));
    let track = Mp4Track { trak, trafs: Vec::new(), moof_offsets: Vec::new(), default_sample_duration: 0 };
    let data: [u8; 16] = kani::any();
    let mut cur = Cursor::new(&data[..]);
    // n = 16 bytes of input: nothing read from it may ask for more than 4n + 64 bytes at once
    set_limit(4 * 16 + 64);
    match track.verif_read_sample(&mut cur, 1) {
        Ok(s) => std::mem::forget(s),
        Err(e) => std::mem::forget(e),
    }
    kani::cover!(true, "returned");
    std::mem::forget(track);
}
