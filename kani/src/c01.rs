//! C01 — muxed samples read back exactly. Track-writer histories from the real initial state,
//! read back through the real lookup code (and C02's table-consistency assertions on the same
//! states, see c02.rs which reuses `run_history`).
use mp4::verif_hooks::*;
use mp4::*;
use std::io::Cursor;

pub const DUR_LIMIT: u32 = 1 << 30;

#[derive(Clone, Copy, PartialEq, Eq)]
pub enum Kind {
    Ttxt,
    Avc,
    Hevc,
    Vp9,
    Aac,
}

pub fn track_config(kind: Kind, timescale: u32) -> TrackConfig {
    let media_conf = match kind {
        Kind::Ttxt => MediaConfig::TtxtConfig(TtxtConfig {}),
        Kind::Avc => {
            let sps: [u8; 4] = kani::any();
            let pps: [u8; 1] = kani::any();
            MediaConfig::AvcConfig(AvcConfig { width: kani::any(), height: kani::any(), seq_param_set: sps.to_vec(), pic_param_set: pps.to_vec() })
        }
        Kind::Hevc => MediaConfig::HevcConfig(HevcConfig { width: kani::any(), height: kani::any() }),
        Kind::Vp9 => MediaConfig::Vp9Config(Vp9Config { width: kani::any(), height: kani::any() }),
        Kind::Aac => MediaConfig::AacConfig(AacConfig {
            bitrate: kani::any(),
            profile: AudioObjectType::AacLowComplexity,
            freq_index: SampleFreqIndex::Freq48000,
            chan_conf: ChannelConfig::Stereo,
        }),
    };
    let track_type = match kind {
        Kind::Ttxt => TrackType::Subtitle,
        Kind::Aac => TrackType::Audio,
        _ => TrackType::Video,
    };
    TrackConfig { track_type, timescale, language: String::from("und"), media_conf }
}

/// What was written, as plain values (the oracle's view of the history).
pub struct Written<const K: usize> {
    pub lens: [usize; K],
    pub bytes: [[u8; 2]; K],
    pub dur: [u32; K],
    pub cts: [i32; K],
    pub sync: [bool; K],
    pub track_ts: u32,
    pub movie_ts: u32,
}

/// new -> K x write_sample -> flush of the last chunk, on a 16-byte output buffer.
/// Returns the writer (not yet ended) and the oracle record. `dur_limit`: exclusive bound on each
/// duration (C01/C02 keep u32 chunk_duration from overflowing, which is C17's subject).
///
/// Timescales: the writer converts the media duration to movie ticks with a 128-bit division by the
/// track timescale on every sample; with symbolic timescales that one division dominates the query
/// (K=1: 660 s, K=2: out of memory). `TIMESCALES` = Some((track, movie)) fixes them per harness
/// (the chunk-flush decision `chunk duration >= track timescale` is still explored for every
/// duration); `t_h01sym__*` keeps both symbolic for K=1.
pub static mut TIMESCALES: Option<(u32, u32)> = Some((1000, 90000));
/// `FIXED_DUR` = Some(d): every sample gets the concrete duration d (no chunk is flushed inside
/// write_sample when d is far below the timescale, which removes the flush branching: this is what
/// makes a two-sample history affordable in the quick tier; sizes, offsets, sync flags and payload
/// bytes stay symbolic).
pub static mut FIXED_DUR: Option<u32> = None;

pub fn run_history<const K: usize>(kind: Kind, lens: [usize; K], out: &mut [u8; 16], dur_limit: u32) -> Option<(VerifTrackWriter, Written<K>)> {
    let (track_ts, movie_ts) = match unsafe { TIMESCALES } {
        Some(p) => p,
        None => {
            let a: u32 = kani::any();
            let b: u32 = kani::any();
            kani::assume(a >= 1 && b >= 1);
            (a, b)
        }
    };
    let cfg = track_config(kind, track_ts);
    let mut tw = match VerifTrackWriter::new(1, &cfg) {
        Ok(t) => t,
        Err(e) => {
            std::mem::forget(e);
            return None;
        }
    };
    std::mem::forget(cfg);
    let w = Written::<K> { lens, bytes: kani::any(), dur: kani::any(), cts: kani::any(), sync: kani::any(), track_ts, movie_ts };
    let mut cur = Cursor::new(&mut out[..]);
    let mut i = 0;
    while i < K {
        kani::assume(w.dur[i] < dur_limit);
        if let Some(d) = unsafe { FIXED_DUR } {
            kani::assume(w.dur[i] == d);
        }
        let s = Mp4Sample {
            start_time: 0,
            duration: w.dur[i],
            rendering_offset: w.cts[i],
            is_sync: w.sync[i],
            bytes: Bytes::copy_from_slice(&w.bytes[i][..lens[i]]),
        };
        match tw.write_sample(&mut cur, &s, movie_ts) {
            Ok(_) => {}
            Err(e) => {
                std::mem::forget(e);
                assert!(false, "C01 write_sample on an in-memory stream with room succeeds");
            }
        }
        std::mem::forget(s);
        i += 1;
    }
    match tw.write_chunk(&mut cur) {
        Ok(()) => {}
        Err(e) => {
            std::mem::forget(e);
            assert!(false, "C01 flushing the last chunk succeeds");
        }
    }
    Some((tw, w))
}

/// What the produced tables *mean* per sample, by the ISO/IEC 14496-12 8.6/8.7 semantics, computed
/// with bounded additive walks only (no division / multiplication: every count is bounded by K).
/// `ok` is false when the tables do not account for exactly K samples in some table.
pub struct Meaning<const K: usize> {
    pub ok: bool,
    pub why: u8,
    pub size: [u32; K],
    pub dur: [u32; K],
    pub cts: [i32; K],
    pub sync: [bool; K],
    pub chunk: [usize; K],
    pub off: [u64; K],
    pub nchunks: usize,
}

pub fn meaning<const K: usize>(trak: &TrakBox) -> Meaning<K> {
    let stbl = &trak.mdia.minf.stbl;
    let mut m = Meaning::<K> { ok: true, why: 0, size: [0; K], dur: [0; K], cts: [0; K], sync: [true; K], chunk: [0; K], off: [0; K], nchunks: 0 };
    // --- stsz
    if stbl.stsz.sample_count != K as u32 {
        m.ok = false;
        m.why = 1;
        return m;
    }
    if stbl.stsz.sample_size > 0 {
        let mut i = 0;
        while i < K {
            m.size[i] = stbl.stsz.sample_size;
            i += 1;
        }
    } else {
        if stbl.stsz.sample_sizes.len() != K {
            m.ok = false;
            m.why = 2;
            return m;
        }
        let mut i = 0;
        while i < K {
            m.size[i] = stbl.stsz.sample_sizes[i];
            i += 1;
        }
    }
    // --- stts: runs of (count, delta)
    {
        let e = &stbl.stts.entries;
        if e.len() > K {
            m.ok = false;
            m.why = 3;
            return m;
        }
        let mut idx = 0usize;
        let mut r = 0;
        while r < K {
            if r < e.len() {
                if e[r].sample_count == 0 || e[r].sample_count as usize > K - idx {
                    m.ok = false;
                    m.why = 4;
                    return m;
                }
                let mut c = 0;
                while c < K {
                    if (c as u32) < e[r].sample_count {
                        m.dur[idx] = e[r].sample_delta;
                        idx += 1;
                    }
                    c += 1;
                }
            }
            r += 1;
        }
        if idx != K {
            m.ok = false;
            m.why = 5;
            return m;
        }
    }
    // --- ctts (absent: all zero)
    if let Some(ref ctts) = stbl.ctts {
        let e = &ctts.entries;
        if e.len() > K {
            m.ok = false;
            m.why = 6;
            return m;
        }
        let mut idx = 0usize;
        let mut r = 0;
        while r < K {
            if r < e.len() {
                if e[r].sample_count == 0 || e[r].sample_count as usize > K - idx {
                    m.ok = false;
                    m.why = 7;
                    return m;
                }
                let mut c = 0;
                while c < K {
                    if (c as u32) < e[r].sample_count {
                        m.cts[idx] = e[r].sample_offset;
                        idx += 1;
                    }
                    c += 1;
                }
            }
            r += 1;
        }
        if idx != K {
            m.ok = false;
            m.why = 8;
            return m;
        }
    }
    // --- stss (absent: every sample is a sync sample)
    if let Some(ref stss) = stbl.stss {
        let e = &stss.entries;
        if e.len() > K {
            m.ok = false;
            m.why = 9;
            return m;
        }
        let mut i = 0;
        while i < K {
            m.sync[i] = false;
            i += 1;
        }
        let mut prev: u32 = 0;
        let mut r = 0;
        while r < K {
            if r < e.len() {
                if e[r] <= prev || e[r] as usize > K {
                    m.ok = false;
                    m.why = 10;
                    return m;
                }
                m.sync[(e[r] - 1) as usize] = true;
                prev = e[r];
            }
            r += 1;
        }
    }
    // --- chunk map: stsc runs + chunk offsets (co64 while writing, stco or co64 after write_end)
    {
        let e = &stbl.stsc.entries;
        let mut offs = [0u64; K];
        let nch: usize;
        if let Some(ref co64) = stbl.co64 {
            nch = co64.entries.len();
            if nch > K {
                m.ok = false;
                m.why = 11;
                return m;
            }
            let mut c = 0;
            while c < K {
                if c < nch {
                    offs[c] = co64.entries[c];
                }
                c += 1;
            }
        } else if let Some(ref stco) = stbl.stco {
            nch = stco.entries.len();
            if nch > K {
                m.ok = false;
                m.why = 11;
                return m;
            }
            let mut c = 0;
            while c < K {
                if c < nch {
                    offs[c] = stco.entries[c] as u64;
                }
                c += 1;
            }
        } else {
            m.ok = false;
            m.why = 12;
            return m;
        }
        m.nchunks = nch;
        if e.len() > K || (nch > 0 && (e.is_empty() || e[0].first_chunk != 1)) {
            m.ok = false;
            m.why = 13;
            return m;
        }
        let mut idx = 0usize;
        let mut c = 0;
        while c < K {
            if c < nch {
                // samples per chunk of chunk c+1 = that of the last run whose first_chunk <= c+1
                let mut spc: u32 = 0;
                let mut prev_fc: u32 = 0;
                let mut r = 0;
                while r < K {
                    if r < e.len() {
                        if e[r].first_chunk <= prev_fc {
                            m.ok = false;
                            m.why = 14;
                            return m;
                        }
                        if e[r].first_chunk as usize <= c + 1 {
                            spc = e[r].samples_per_chunk;
                        }
                        prev_fc = e[r].first_chunk;
                    }
                    r += 1;
                }
                if spc == 0 || spc as usize > K - idx {
                    m.ok = false;
                    m.why = 15;
                    return m;
                }
                let mut acc: u64 = offs[c];
                let mut p = 0;
                while p < K {
                    if (p as u32) < spc {
                        m.chunk[idx] = c;
                        m.off[idx] = acc;
                        acc += m.size[idx] as u64;
                        idx += 1;
                    }
                    p += 1;
                }
            }
            c += 1;
        }
        if idx != K {
            m.ok = false;
            m.why = 16;
            return m;
        }
    }
    m
}

/// After any accepted history the produced tables *mean* exactly the samples written, and the
/// chunk bytes in the stream are the payloads. Reading consistent tables back through the real
/// lookup code is C03's subject (all table shapes with N <= 4 samples, so every shape a history of
/// K <= 3 samples can produce); `t_h01e2e__*` additionally runs the real lookups on the
/// writer's own tables.
pub fn h01_hist<const K: usize>(kind: Kind, lens: [usize; K]) {
    let mut out = [0u8; 16];
    let (tw, w) = match run_history::<K>(kind, lens, &mut out, DUR_LIMIT) {
        Some(x) => x,
        None => {
            assert!(false, "C01 a valid configuration is accepted");
            return;
        }
    };
    let st = tw.state();
    assert!(st.chunk_samples == 0 && tw.chunk_buffer().is_empty(), "C01 no sample is left outside a chunk after the final flush");
    let trak = tw.into_trak();
    let m = meaning::<K>(&trak);
    assert!(m.ok, "C01 the tables account for exactly the samples written");
    if m.ok {
        let i: usize = kani::any();
        if i < K {
        assert!(m.size[i] as usize == w.lens[i], "C01 k-th sample has the written length");
        assert!(m.dur[i] == w.dur[i], "C01 k-th sample has the written duration");
        assert!(m.cts[i] == w.cts[i], "C01 k-th sample has the written rendering offset");
        assert!(m.sync[i] == w.sync[i], "C01 k-th sample has the written sync flag");
        assert!(m.off[i] + m.size[i] as u64 <= 16, "C01 the sample lies inside the written stream");
        if w.lens[i] >= 1 && m.off[i] < 16 {
            assert!(out[m.off[i] as usize] == w.bytes[i][0], "C01 k-th sample has exactly the written bytes");
        }
        if w.lens[i] >= 2 && m.off[i] < 15 {
            assert!(out[m.off[i] as usize + 1] == w.bytes[i][1], "C01 k-th sample has exactly the written bytes");
        }
        kani::cover!(i + 1 == K, "(opt) last sample checked");
        }
    }
    kani::cover!(true, "history completed");
    std::mem::forget(trak);
}

/// End to end on the writer's own tables: the real reader-side lookups (read_sample = exactly
/// these lookups + seek + read_exact, decided in C03's h03_read) on the trak the writer produced.
/// Expensive (symbolic samples_per_chunk puts two 32-bit dividers into the formula): thorough only.
pub fn h01_e2e<const K: usize>(kind: Kind, lens: [usize; K]) {
    let mut out = [0u8; 16];
    let (tw, w) = match run_history::<K>(kind, lens, &mut out, DUR_LIMIT) {
        Some(x) => x,
        None => {
            assert!(false, "C01 a valid configuration is accepted");
            return;
        }
    };
    let mut trak = tw.into_trak();
    // first_sample is not on the wire: the decoder derives it; use the ISO meaning computed above
    {
        let m = meaning::<K>(&trak);
        let e = &mut trak.mdia.minf.stbl.stsc.entries;
        let mut r = 0;
        while r < K {
            if r < e.len() {
                // first sample of the first chunk of the run
                let mut first: u32 = 0;
                let mut i = 0;
                while i < K {
                    if first == 0 && m.chunk[i] + 1 == e[r].first_chunk as usize {
                        first = i as u32 + 1;
                    }
                    i += 1;
                }
                e[r].first_sample = first;
            }
            r += 1;
        }
    }
    let track = Mp4Track { trak, trafs: Vec::new(), moof_offsets: Vec::new(), default_sample_duration: 0 };
    assert!(track.sample_count() == K as u32, "C01 sample count equals the number written");
    let k: u32 = kani::any();
    kani::assume(k <= K as u32 + 1);
    let off = track.sample_offset(k);
    if k >= 1 && k <= K as u32 {
        let i = (k - 1) as usize;
        match (off, track.verif_sample_size(k), track.verif_sample_time(k)) {
            (Ok(off), Ok(size), Ok((start, dur))) => {
                assert!(size as usize == w.lens[i], "C01 k-th sample has the written length");
                assert!(off + size as u64 <= 16, "C01 the sample lies inside the written stream");
                if w.lens[i] >= 1 && off < 16 {
                    assert!(out[off as usize] == w.bytes[i][0], "C01 k-th sample has exactly the written bytes");
                }
                if w.lens[i] >= 2 && off < 15 {
                    assert!(out[off as usize + 1] == w.bytes[i][1], "C01 k-th sample has exactly the written bytes");
                }
                assert!(dur == w.dur[i], "C01 k-th sample has the written duration");
                assert!(track.verif_sample_rendering_offset(k) == w.cts[i], "C01 k-th sample has the written rendering offset");
                assert!(track.verif_is_sync_sample(k) == w.sync[i], "C01 k-th sample has the written sync flag");
                let mut want: u64 = 0;
                let mut j = 0;
                while j < K {
                    if j < i {
                        want += w.dur[j] as u64;
                    }
                    j += 1;
                }
                assert!(start == want, "C01 start time = sum of the durations written before");
                kani::cover!(true, "(opt) a written sample was looked up");
            }
            (a, b, c) => {
                std::mem::forget(a);
                std::mem::forget(b);
                std::mem::forget(c);
                assert!(false, "C01 every written sample can be read back");
            }
        }
    } else {
        match off {
            Ok(_) => assert!(false, "C01 ids past the end never yield a sample"),
            Err(e) => std::mem::forget(e),
        }
    }
    kani::cover!(k == K as u32, "last written sample (or id 0 of an empty track)");
    std::mem::forget(track);
}

#[kani::proof]
#[kani::unwind(4)]
fn t_h01e2e__ttxt_k1_len1() {
    h01_e2e::<1>(Kind::Ttxt, [1])
}
#[kani::proof]
#[kani::unwind(5)]
fn t_h01e2e__ttxt_k2_len11() {
    h01_e2e::<2>(Kind::Ttxt, [1, 1])
}

macro_rules! hist {
    ($name:ident, $unwind:expr, $k:expr, $kind:expr, $lens:expr) => {
        #[kani::proof]
        #[kani::unwind($unwind)]
        fn $name() {
            h01_hist::<$k>($kind, $lens)
        }
    };
}

/// K=1 with both timescales symbolic (thorough)
#[kani::proof]
#[kani::unwind(4)]
fn t_h01sym__ttxt_k1_len1_any_timescales() {
    unsafe { TIMESCALES = None };
    h01_hist::<1>(Kind::Ttxt, [1])
}
/// a second concrete pair in the quick tier: track timescale finer than the movie's
#[kani::proof]
#[kani::unwind(4)]
fn q_h01ts__ttxt_k1_len1_ts90000_movie600() {
    unsafe { TIMESCALES = Some((90000, 600)) };
    h01_hist::<1>(Kind::Ttxt, [1])
}
/// ... and for two samples (thorough)
#[kani::proof]
#[kani::unwind(5)]
fn t_h01ts__ttxt_k2_len11_ts90000_movie600() {
    unsafe { TIMESCALES = Some((90000, 600)) };
    h01_hist::<2>(Kind::Ttxt, [1, 1])
}

/// Light two-sample history for the quick tier: only the *totals* of the run-length tables are
/// checked (each table accounts for exactly K samples) plus per-sample size and duration of the
/// last sample -- no full interpretation of the chunk map (that is `h01_hist`, whose K=2 instances
/// take ~400 s and live in the thorough tier).
pub fn h01_sums<const K: usize>(lens: [usize; K]) {
    let mut out = [0u8; 16];
    let (tw, w) = match run_history::<K>(Kind::Ttxt, lens, &mut out, DUR_LIMIT) {
        Some(x) => x,
        None => {
            assert!(false, "C01 a valid configuration is accepted");
            return;
        }
    };
    let trak = tw.into_trak();
    let stbl = &trak.mdia.minf.stbl;
    assert!(stbl.stsz.sample_count == K as u32, "C01 sample count equals the number written");
    let mut n: u64 = 0;
    let mut r = 0;
    while r < K {
        if r < stbl.stts.entries.len() {
            n += stbl.stts.entries[r].sample_count as u64;
        }
        r += 1;
    }
    assert!(stbl.stts.entries.len() <= K && n == K as u64, "C01 the time-to-sample runs account for exactly the samples written");
    if let Some(ref ctts) = stbl.ctts {
        let mut n: u64 = 0;
        let mut r = 0;
        while r < K {
            if r < ctts.entries.len() {
                n += ctts.entries[r].sample_count as u64;
            }
            r += 1;
        }
        assert!(ctts.entries.len() <= K && n == K as u64, "C01 the composition-offset runs account for exactly the samples written");
        // the last run carries the last sample's offset
        if K > 0 && ctts.entries.len() >= 1 && ctts.entries.len() <= K {
            assert!(ctts.entries[ctts.entries.len() - 1].sample_offset == w.cts[K - 1], "C01 last sample has the written rendering offset");
        }
        kani::cover!(ctts.entries.len() == 2, "(opt) two composition runs");
    } else {
        let mut i = 0;
        while i < K {
            assert!(w.cts[i] == 0, "C01 no composition table only when every offset is zero");
            i += 1;
        }
    }
    if K > 0 && stbl.stts.entries.len() >= 1 && stbl.stts.entries.len() <= K {
        assert!(stbl.stts.entries[stbl.stts.entries.len() - 1].sample_delta == w.dur[K - 1], "C01 last sample has the written duration");
    }
    kani::cover!(true, "history completed");
    std::mem::forget(trak);
}
#[kani::proof]
#[kani::unwind(5)]
fn q_h01sums__ttxt_k2_len11() {
    h01_sums::<2>([1, 1])
}
#[kani::proof]
#[kani::unwind(6)]
fn t_h01sums__ttxt_k3_len111() {
    h01_sums::<3>([1, 1, 1])
}

/// two samples, concrete small durations (one chunk, flushed at the end), everything else symbolic
#[kani::proof]
#[kani::unwind(5)]
fn t_h01fix__ttxt_k2_len11_dur1() {
    unsafe { FIXED_DUR = Some(1) };
    h01_hist::<2>(Kind::Ttxt, [1, 1])
}
#[kani::proof]
#[kani::unwind(5)]
fn t_h01fix__ttxt_k2_len12_dur1() {
    unsafe { FIXED_DUR = Some(1) };
    h01_hist::<2>(Kind::Ttxt, [1, 2])
}

// every media kind, one sample
hist!(q_h01hist__ttxt_k1_len1, 4, 1, Kind::Ttxt, [1]);
hist!(q_h01hist__ttxt_k1_len0, 4, 1, Kind::Ttxt, [0]);
hist!(t_h01hist__ttxt_k1_len2, 4, 1, Kind::Ttxt, [2]);
hist!(q_h01hist__avc_k1_len1, 6, 1, Kind::Avc, [1]);
hist!(q_h01hist__hevc_k1_len1, 4, 1, Kind::Hevc, [1]);
hist!(q_h01hist__vp9_k1_len1, 4, 1, Kind::Vp9, [1]);
hist!(q_h01hist__aac_k1_len1, 4, 1, Kind::Aac, [1]);
hist!(q_h01hist__ttxt_k0, 3, 0, Kind::Ttxt, []);
// two samples: every payload-length vector in {0,1,2}^2 (quick: five of them)
hist!(t_h01hist__ttxt_k2_len11, 5, 2, Kind::Ttxt, [1, 1]);
hist!(t_h01hist__ttxt_k2_len12, 5, 2, Kind::Ttxt, [1, 2]);
hist!(t_h01hist__ttxt_k2_len01, 5, 2, Kind::Ttxt, [0, 1]);
hist!(t_h01hist__ttxt_k2_len10, 5, 2, Kind::Ttxt, [1, 0]);
hist!(t_h01hist__ttxt_k2_len00, 5, 2, Kind::Ttxt, [0, 0]);
hist!(t_h01hist__ttxt_k2_len02, 5, 2, Kind::Ttxt, [0, 2]);
hist!(t_h01hist__ttxt_k2_len20, 5, 2, Kind::Ttxt, [2, 0]);
hist!(t_h01hist__ttxt_k2_len21, 5, 2, Kind::Ttxt, [2, 1]);
hist!(t_h01hist__ttxt_k2_len22, 5, 2, Kind::Ttxt, [2, 2]);
// three samples (thorough)
hist!(t_h01hist__ttxt_k3_len111, 6, 3, Kind::Ttxt, [1, 1, 1]);
hist!(t_h01hist__ttxt_k3_len121, 6, 3, Kind::Ttxt, [1, 2, 1]);
hist!(t_h01hist__ttxt_k3_len101, 6, 3, Kind::Ttxt, [1, 0, 1]);
hist!(t_h01hist__ttxt_k3_len011, 6, 3, Kind::Ttxt, [0, 1, 1]);
hist!(t_h01hist__ttxt_k3_len110, 6, 3, Kind::Ttxt, [1, 1, 0]);
hist!(t_h01hist__ttxt_k3_len212, 6, 3, Kind::Ttxt, [2, 1, 2]);

/// Mp4Writer: rejected calls (unknown track id) leave no trace; accepted calls go to that track only.
///
/// A symbolic index into the Vec of track writers (each a large struct) does not get through
/// CBMC's symbolic execution, so the id is split: `valid = None` -> symbolic over *all* ids that
/// name no track (0 and everything above NT, one query); `valid = Some(t)` -> the concrete id t.
fn h01_mw<const NT: usize>(valid: Option<u32>) {
    let mut out = [0u8; 64];
    let cfg = Mp4Config { major_brand: FourCC::from(*b"isom"), minor_version: 0, compatible_brands: Vec::new(), timescale: 1000 };
    let mut w = match Mp4Writer::write_start(Cursor::new(&mut out[..]), &cfg) {
        Ok(w) => w,
        Err(e) => {
            std::mem::forget(e);
            assert!(false, "C01 write_start succeeds");
            return;
        }
    };
    let mut t = 0;
    while t < NT {
        let tc = track_config(Kind::Ttxt, 1000);
        if let Err(e) = w.add_track(&tc) {
            std::mem::forget(e);
            assert!(false, "C01 add_track accepts a valid configuration");
        }
        std::mem::forget(tc);
        t += 1;
    }
    let (mdat_pos, ts, dur0, nt) = w.verif_state();
    assert!(nt == NT, "C01 tracks are numbered 1..n in the order added");
    let mut t = 0;
    while t < NT {
        assert!(w.verif_track_trak(t).tkhd.track_id == t as u32 + 1, "C01 track ids are 1..n in order");
        t += 1;
    }
    let pos0 = w.verif_writer().position();
    let track_id: u32 = match valid {
        Some(t) => t,
        None => {
            let t: u32 = kani::any();
            kani::assume(t == 0 || t as usize > NT);
            t
        }
    };
    let b: [u8; 1] = kani::any();
    let dur: u32 = kani::any();
    kani::assume(dur < 1000); // no chunk flush: the sample stays in the track's pending chunk
    let s = Mp4Sample { start_time: 0, duration: dur, rendering_offset: kani::any(), is_sync: kani::any(), bytes: Bytes::copy_from_slice(&b) };
    let r = w.write_sample(track_id, &s);
    let (mdat_pos1, ts1, dur1, nt1) = w.verif_state();
    assert!(mdat_pos1 == mdat_pos && ts1 == ts && nt1 == nt);
    match r {
        Ok(()) => {
            assert!(track_id >= 1 && track_id as usize <= NT, "C01 only existing track ids are accepted");
            let mut t = 0;
            while t < NT {
                let st = w.verif_track_state(t);
                if t as u32 + 1 == track_id {
                    assert!(st.sample_id == 2 && st.chunk_samples == 1, "C01 the addressed track took the sample");
                    assert!(w.verif_track_chunk_buffer(t).len() == 1 && w.verif_track_chunk_buffer(t)[0] == b[0]);
                } else {
                    assert!(st.sample_id == 1 && st.chunk_samples == 0, "C01 other tracks are untouched");
                    assert!(w.verif_track_chunk_buffer(t).len() == 0);
                }
                t += 1;
            }
            kani::cover!(true, "(opt) accepted call");
        }
        Err(e) => {
            std::mem::forget(e);
            assert!(track_id == 0 || track_id as usize > NT, "C01 existing track ids are not rejected");
            assert!(dur1 == dur0 && w.verif_writer().position() == pos0, "C01 a rejected call leaves no trace in the writer");
            let mut t = 0;
            while t < NT {
                let st = w.verif_track_state(t);
                assert!(st.sample_id == 1 && st.chunk_samples == 0 && st.chunk_duration == 0, "C01 a rejected call leaves no trace in any track");
                assert!(w.verif_track_chunk_buffer(t).len() == 0);
                assert!(w.verif_track_trak(t).mdia.minf.stbl.stsz.sample_count == 0);
                t += 1;
            }
            kani::cover!(true, "rejected call");
        }
    }
    std::mem::forget(s);
    std::mem::forget(w);
}

#[kani::proof]
#[kani::unwind(5)]
fn q_h01mw__tracks0_any_id() {
    h01_mw::<0>(None)
}
// With one or more tracks the harness does not get through CBMC (pushing the ~1 KB track writer
// into the Vec makes propositional reduction run out of 16 GB): kept for reference, excluded (x_).
#[kani::proof]
#[kani::unwind(5)]
fn x_h01mw__tracks1_unknown_ids() {
    h01_mw::<1>(None)
}
#[kani::proof]
#[kani::unwind(5)]
fn x_h01mw__tracks1_id1() {
    h01_mw::<1>(Some(1))
}
#[kani::proof]
#[kani::unwind(5)]
fn x_h01mw__tracks2_unknown_ids() {
    h01_mw::<2>(None)
}
#[kani::proof]
#[kani::unwind(5)]
fn x_h01mw__tracks2_id1() {
    h01_mw::<2>(Some(1))
}
#[kani::proof]
#[kani::unwind(5)]
fn x_h01mw__tracks2_id2() {
    h01_mw::<2>(Some(2))
}
