//! C16 — code and enumeration mappings are exact over their whole domain.
//! One harness per mapping; the raw value is one symbolic variable over the complete domain;
//! the oracle tables below are written from the specifications, not from the crate.
use crate::common::cc;
use mp4::verif_hooks::*;
use mp4::*;
use std::convert::TryFrom;
use std::str::FromStr;

/// ISO/IEC 14496-12 (+ QuickTime/iTunes item atoms) four-character codes the crate names.
/// index = position in the oracle table; the crate variant is matched by `bt_index`.
const CODES: [[u8; 4]; 56] = [
    *b"ftyp", *b"mvhd", *b"mfhd", *b"free", *b"mdat", *b"moov", *b"mvex", *b"mehd", *b"trex", *b"emsg",
    *b"moof", *b"tkhd", *b"tfhd", *b"tfdt", *b"edts", *b"mdia", *b"elst", *b"mdhd", *b"hdlr", *b"minf",
    *b"vmhd", *b"stbl", *b"stsd", *b"stts", *b"ctts", *b"stss", *b"stsc", *b"stsz", *b"stco", *b"co64",
    *b"trak", *b"traf", *b"trun", *b"udta", *b"meta", *b"dinf", *b"dref", *b"url ", *b"smhd", *b"avc1",
    *b"avcC", *b"hev1", *b"hvcC", *b"mp4a", *b"esds", *b"tx3g", *b"vpcC", *b"vp09", *b"data", *b"ilst",
    [0xa9, b'n', b'a', b'm'], [0xa9, b'd', b'a', b'y'], *b"covr", *b"desc", *b"wide", *b"wave",
];

fn bt_index(b: BoxType) -> Option<usize> {
    Some(match b {
        BoxType::FtypBox => 0, BoxType::MvhdBox => 1, BoxType::MfhdBox => 2, BoxType::FreeBox => 3,
        BoxType::MdatBox => 4, BoxType::MoovBox => 5, BoxType::MvexBox => 6, BoxType::MehdBox => 7,
        BoxType::TrexBox => 8, BoxType::EmsgBox => 9, BoxType::MoofBox => 10, BoxType::TkhdBox => 11,
        BoxType::TfhdBox => 12, BoxType::TfdtBox => 13, BoxType::EdtsBox => 14, BoxType::MdiaBox => 15,
        BoxType::ElstBox => 16, BoxType::MdhdBox => 17, BoxType::HdlrBox => 18, BoxType::MinfBox => 19,
        BoxType::VmhdBox => 20, BoxType::StblBox => 21, BoxType::StsdBox => 22, BoxType::SttsBox => 23,
        BoxType::CttsBox => 24, BoxType::StssBox => 25, BoxType::StscBox => 26, BoxType::StszBox => 27,
        BoxType::StcoBox => 28, BoxType::Co64Box => 29, BoxType::TrakBox => 30, BoxType::TrafBox => 31,
        BoxType::TrunBox => 32, BoxType::UdtaBox => 33, BoxType::MetaBox => 34, BoxType::DinfBox => 35,
        BoxType::DrefBox => 36, BoxType::UrlBox => 37, BoxType::SmhdBox => 38, BoxType::Avc1Box => 39,
        BoxType::AvcCBox => 40, BoxType::Hev1Box => 41, BoxType::HvcCBox => 42, BoxType::Mp4aBox => 43,
        BoxType::EsdsBox => 44, BoxType::Tx3gBox => 45, BoxType::VpccBox => 46, BoxType::Vp09Box => 47,
        BoxType::DataBox => 48, BoxType::IlstBox => 49, BoxType::NameBox => 50, BoxType::DayBox => 51,
        BoxType::CovrBox => 52, BoxType::DescBox => 53, BoxType::WideBox => 54, BoxType::WaveBox => 55,
        BoxType::UnknownBox(_) => return None,
    })
}

fn code_index(v: u32) -> Option<usize> {
    let mut i = 0;
    while i < 56 {
        if cc(&CODES[i]) == v {
            return Some(i);
        }
        i += 1;
    }
    None
}

/// u32 -> BoxType -> u32 for all 2^32 codes: named variant iff the code is in the table (and the
/// right one), UnknownBox(v) carrying v otherwise; conversion back is the identity.
#[kani::proof]
#[kani::unwind(58)]
fn q_h16box__u32_to_boxtype_all_codes() {
    let v: u32 = kani::any();
    let b = BoxType::from(v);
    let back: u32 = b.into();
    assert!(back == v, "C16 u32->BoxType->u32 lossless");
    match (bt_index(b), code_index(v)) {
        (Some(i), Some(j)) => assert!(i == j, "C16 named variant is the one the table gives"),
        (None, None) => {
            if let BoxType::UnknownBox(u) = b {
                assert!(u == v, "C16 UnknownBox carries the code");
            }
        }
        _ => assert!(false, "C16 named-variant iff code in table"),
    }
    kani::cover!(bt_index(b).is_some());
    kani::cover!(bt_index(b).is_none());
}

/// BoxType -> u32 -> BoxType for every variant (UnknownBox with a symbolic payload that is not a
/// named code).
#[kani::proof]
#[kani::unwind(58)]
fn q_h16box__boxtype_to_u32_every_variant() {
    let i: usize = kani::any();
    kani::assume(i < 56);
    let v = cc(&CODES[i]);
    let b = BoxType::from(v);
    assert!(bt_index(b) == Some(i), "C16 table code maps to its variant");
    let f: FourCC = b.into();
    assert!(f.value == CODES[i], "C16 From<BoxType> for FourCC gives the four characters");
    let u: u32 = kani::any();
    kani::assume(code_index(u).is_none());
    let ub = BoxType::UnknownBox(u);
    let n: u32 = ub.into();
    assert!(n == u);
    let f: FourCC = ub.into();
    assert!(f.value == u.to_be_bytes());
    kani::cover!(true);
}

/// u32 <-> FourCC <-> [u8; 4]
#[kani::proof]
fn q_h16fourcc__u32_bytes_roundtrip() {
    let v: u32 = kani::any();
    let f = FourCC::from(v);
    assert!(f.value[0] == (v >> 24) as u8 && f.value[1] == (v >> 16) as u8);
    assert!(f.value[2] == (v >> 8) as u8 && f.value[3] == v as u8);
    let back: u32 = f.into();
    assert!(back == v);
    let back2: u32 = (&f).into();
    assert!(back2 == v);
    let bytes: [u8; 4] = kani::any();
    let g = FourCC::from(bytes);
    assert!(g.value == bytes);
    let gv: u32 = g.into();
    assert!(gv == cc(&bytes));
    assert!((f == g) == (v == gv), "C16 FourCC equality is code equality");
    kani::cover!(true);
}

/// FromStr: accepted iff the string is exactly four bytes long; then the value is those bytes.
fn fromstr_len<const N: usize>() {
    let b: [u8; N] = kani::any();
    // ASCII bytes, plus (for even N) the two-byte UTF-8 form 0xC3 0xA9 in the first two places:
    // this keeps the &str valid UTF-8 without running the UTF-8 validator symbolically.
    let two_byte: bool = kani::any();
    let mut i = 0;
    while i < N {
        if two_byte && N >= 2 && i < 2 {
            kani::assume(b[i] == if i == 0 { 0xC3 } else { 0xA9 });
        } else {
            kani::assume(b[i] < 0x80);
        }
        i += 1;
    }
    let s = unsafe { std::str::from_utf8_unchecked(&b) };
    match FourCC::from_str(s) {
        Ok(f) => {
            assert!(N == 4, "C16 FromStr accepts only 4-byte strings");
            let mut i = 0;
            while i < N {
                assert!(f.value[i % 4] == b[i]);
                i += 1;
            }
        }
        Err(e) => {
            assert!(N != 4, "C16 FromStr rejects only non-4-byte strings");
            std::mem::forget(e);
        }
    }
    kani::cover!(true);
}

#[kani::proof]
#[kani::unwind(8)]
fn q_h16fourcc__fromstr_len0to6() {
    fromstr_len::<0>();
    fromstr_len::<1>();
    fromstr_len::<2>();
    fromstr_len::<3>();
    fromstr_len::<4>();
    fromstr_len::<5>();
    fromstr_len::<6>();
}

/// TrackType <-> FourCC for all 2^32 handler codes.
#[kani::proof]
fn q_h16track__fourcc_all_codes() {
    let v: [u8; 4] = kani::any();
    let f = FourCC::from(v);
    match TrackType::try_from(&f) {
        Ok(TrackType::Video) => assert!(v == *b"vide"),
        Ok(TrackType::Audio) => assert!(v == *b"soun"),
        Ok(TrackType::Subtitle) => assert!(v == *b"sbtl"),
        Err(e) => {
            assert!(v != *b"vide" && v != *b"soun" && v != *b"sbtl");
            std::mem::forget(e);
        }
    }
    let k: u8 = kani::any();
    kani::assume(k < 3);
    let (t, want) = match k {
        0 => (TrackType::Video, *b"vide"),
        1 => (TrackType::Audio, *b"soun"),
        _ => (TrackType::Subtitle, *b"sbtl"),
    };
    let f: FourCC = t.into();
    assert!(f.value == want);
    assert!(matches!(TrackType::try_from(&f), Ok(x) if x == t));
    kani::cover!(true);
}

/// TrackType / MediaType from text: strings of 3..=4 symbolic ASCII bytes.
#[kani::proof]
#[kani::unwind(6)]
fn q_h16track__str_len3_len4() {
    let b: [u8; 4] = kani::any();
    kani::assume(b[0] < 0x80 && b[1] < 0x80 && b[2] < 0x80 && b[3] < 0x80);
    let s = unsafe { std::str::from_utf8_unchecked(&b) };
    match TrackType::try_from(s) {
        Ok(TrackType::Video) => assert!(b == *b"vide"),
        Ok(TrackType::Audio) => assert!(b == *b"soun"),
        Ok(TrackType::Subtitle) => assert!(b == *b"sbtl"),
        Err(e) => {
            assert!(b != *b"vide" && b != *b"soun" && b != *b"sbtl");
            std::mem::forget(e);
        }
    }
    match MediaType::try_from(s) {
        Ok(MediaType::H264) => assert!(b == *b"h264"),
        Ok(MediaType::H265) => assert!(b == *b"h265"),
        Ok(MediaType::AAC) | Ok(MediaType::VP9) => assert!(false, "3-letter names cannot match 4 bytes"),
        Ok(MediaType::TTXT) => assert!(b == *b"ttxt"),
        Err(e) => {
            assert!(b != *b"h264" && b != *b"h265" && b != *b"ttxt");
            std::mem::forget(e);
        }
    }
    let s3 = unsafe { std::str::from_utf8_unchecked(&b[..3]) };
    match MediaType::try_from(s3) {
        Ok(MediaType::VP9) => assert!(b[..3] == *b"vp9"),
        Ok(MediaType::AAC) => assert!(b[..3] == *b"aac"),
        Ok(_) => assert!(false),
        Err(e) => {
            assert!(b[..3] != *b"vp9" && b[..3] != *b"aac");
            std::mem::forget(e);
        }
    }
    match TrackType::try_from(s3) {
        Ok(_) => assert!(false, "no 3-letter handler"),
        Err(e) => std::mem::forget(e),
    }
    // enumeration -> text -> enumeration
    let k: u8 = kani::any();
    kani::assume(k < 5);
    let m = match k {
        0 => MediaType::H264,
        1 => MediaType::H265,
        2 => MediaType::VP9,
        3 => MediaType::AAC,
        _ => MediaType::TTXT,
    };
    let txt: &str = m.into();
    let txt2: &str = (&m).into();
    assert!(txt.len() == txt2.len());
    assert!(matches!(MediaType::try_from(txt), Ok(x) if x == m));
    assert!(matches!(MediaType::try_from(txt2), Ok(x) if x == m));
    kani::cover!(true);
}

/// AVC profile: H.264 Annex A — profile_idc 66 is Baseline, and Constrained Baseline when
/// constraint_set1_flag (bit 6 of the compatibility byte) is set; 77 Main, 88 Extended, 100 High.
#[kani::proof]
fn q_h16avc__all_65536_pairs() {
    let p: u8 = kani::any();
    let c: u8 = kani::any();
    match AvcProfile::try_from((p, c)) {
        Ok(AvcProfile::AvcConstrainedBaseline) => {
            assert!(p == 66 && (c & 0x40) != 0, "C16 ConstrainedBaseline only for 66 + constraint_set1")
        }
        Ok(AvcProfile::AvcBaseline) => {
            assert!(p == 66 && (c & 0x40) == 0, "C16 Baseline only for 66 without constraint_set1")
        }
        Ok(AvcProfile::AvcMain) => assert!(p == 77),
        Ok(AvcProfile::AvcExtended) => assert!(p == 88),
        Ok(AvcProfile::AvcHigh) => assert!(p == 100),
        Err(e) => {
            assert!(p != 66 && p != 77 && p != 88 && p != 100, "C16 rejects exactly the unknown profiles");
            std::mem::forget(e);
        }
    }
    kani::cover!(p == 66 && (c & 0x40) != 0);
    kani::cover!(true);
}

/// ISO/IEC 14496-3 Table 1.17 audio object types the crate enumerates: 1..=9, 12..=17, 19..=30,
/// 32..=46. The enum discriminant equals the type number.
fn aot_defined(v: u8) -> bool {
    (1..=9).contains(&v) || (12..=17).contains(&v) || (19..=30).contains(&v) || (32..=46).contains(&v)
}

#[kani::proof]
fn q_h16aac__object_type_all_u8() {
    let v: u8 = kani::any();
    match AudioObjectType::try_from(v) {
        Ok(t) => {
            assert!(aot_defined(v), "C16 accepts only defined audio object types");
            assert!(t as u8 == v, "C16 variant number equals raw value");
        }
        Err(e) => {
            assert!(!aot_defined(v), "C16 rejects only undefined audio object types");
            std::mem::forget(e);
        }
    }
    kani::cover!(true);
}

const FREQS: [u32; 13] = [96000, 88200, 64000, 48000, 44100, 32000, 24000, 22050, 16000, 12000, 11025, 8000, 7350];

#[kani::proof]
fn q_h16aac__freq_index_and_channels_all_u8() {
    let v: u8 = kani::any();
    match SampleFreqIndex::try_from(v) {
        Ok(t) => {
            assert!(v < 13);
            assert!(t as u8 == v);
            assert!(t.freq() == FREQS[v as usize], "C16 frequency table (14496-3 Table 1.18)");
        }
        Err(e) => {
            assert!(v >= 13);
            std::mem::forget(e);
        }
    }
    match ChannelConfig::try_from(v) {
        Ok(t) => {
            assert!((1..=7).contains(&v));
            assert!(t as u8 == v);
        }
        Err(e) => {
            assert!(!(1..=7).contains(&v));
            std::mem::forget(e);
        }
    }
    kani::cover!(true);
}

#[kani::proof]
fn q_h16data__datatype_all_u32() {
    let v: u32 = kani::any();
    match DataType::try_from(v) {
        Ok(DataType::Binary) => assert!(v == 0),
        Ok(DataType::Text) => assert!(v == 1),
        Ok(DataType::Image) => assert!(v == 13),
        Ok(DataType::TempoCpil) => assert!(v == 21),
        Err(e) => {
            assert!(v != 0 && v != 1 && v != 13 && v != 21);
            std::mem::forget(e);
        }
    }
    assert!(DataType::default() == DataType::Binary);
    kani::cover!(true);
}

/// 8.8 and 16.16 fixed point wrappers over all raw values.
#[kani::proof]
fn q_h16fixed__all_raw_values() {
    let a: u8 = kani::any();
    let f = FixedPointU8::new(a);
    assert!(f.value() == a && f.raw_value() == (a as u16) << 8);
    let r: u16 = kani::any();
    let f = FixedPointU8::new_raw(r);
    assert!(f.raw_value() == r && f.value() == (r >> 8) as u8);

    let a: i8 = kani::any();
    let f = FixedPointI8::new(a);
    assert!(f.value() == a && f.raw_value() == (a as i16) * 256);
    let r: i16 = kani::any();
    let f = FixedPointI8::new_raw(r);
    assert!(f.raw_value() == r);
    // integer part, truncated toward zero (Ratio::to_integer)
    assert!(f.value() == (r / 256) as i8);

    let a: u16 = kani::any();
    let f = FixedPointU16::new(a);
    assert!(f.value() == a && f.raw_value() == (a as u32) << 16);
    let r: u32 = kani::any();
    let f = FixedPointU16::new_raw(r);
    assert!(f.raw_value() == r && f.value() == (r >> 16) as u16);
    kani::cover!(true);
}

/// ISO-639-2/T packed language (14496-12 8.4.2): three 5-bit fields, each letter = field + 0x60.
/// Decided in two halves that compose to `language_code(language_string(c)) == c & 0x7FFF`:
/// (a) code -> text for the codes with a given top field gives exactly the three bytes
/// `field + 0x60` (all in 0x60..=0x7F, i.e. ASCII), (b) text -> code for *every* triple of bytes
/// in 0x60..=0x7F gives the packed value.
fn lang_decode(lo: u16, hi: u16) {
    let code: u16 = kani::any();
    kani::assume(code >= lo && code <= hi);
    let s = verif_language_string(code);
    let b = s.as_bytes();
    assert!(b.len() == 3, "C16 language text has three letters");
    if b.len() == 3 {
        assert!(b[0] as u16 == ((code >> 10) & 0x1f) + 0x60, "C16 language letter 1");
        assert!(b[1] as u16 == ((code >> 5) & 0x1f) + 0x60, "C16 language letter 2");
        assert!(b[2] as u16 == (code & 0x1f) + 0x60, "C16 language letter 3");
    }
    std::mem::forget(s);
    kani::cover!(true);
}

#[kani::proof]
#[kani::unwind(4)]
fn q_h16lang__decode_codes_0000_7fff() {
    lang_decode(0, 0x7fff)
}
#[kani::proof]
#[kani::unwind(4)]
fn q_h16lang__decode_codes_8000_ffff() {
    lang_decode(0x8000, 0xffff)
}

#[kani::proof]
#[kani::unwind(4)]
fn q_h16lang__encode_every_triple_0x60_0x7f() {
    let b: [u8; 3] = kani::any();
    kani::assume(b[0] >= 0x60 && b[0] <= 0x7f && b[1] >= 0x60 && b[1] <= 0x7f && b[2] >= 0x60 && b[2] <= 0x7f);
    let s = unsafe { std::str::from_utf8_unchecked(&b) };
    let code = verif_language_code(s);
    let want = (((b[0] - 0x60) as u16) << 10) | (((b[1] - 0x60) as u16) << 5) | ((b[2] - 0x60) as u16);
    assert!(code == want, "C16 packed language of a 3-letter code");
    kani::cover!(true);
}
