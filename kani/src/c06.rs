//! C06 — the reader API never panics. Per-decoder wrappers: gen/c06.rs; track accessors below.
use crate::common::boxes::*;
use crate::common::rd::*;
use mp4::verif_hooks::*;
use mp4::*;
use std::io::Cursor;

// ------------------------------------------------------------------------------------------
// Track accessors on arbitrary (not necessarily consistent) tables, as the decoders can
// produce them: every value symbolic; `first_sample` of stsc entries is what StscBox::read_box
// derives (entry 0: 1; entry i: checked 1 + sum (fc[i]-fc[i-1]) * spc[i-1], boxes where that
// overflows are rejected by the decoder and never reach a track).
use crate::common::model::*;

fn arbitrary_stsc<const E: usize>() -> Option<StscBox> {
    let mut b = StscBox::default();
    let mut first_sample: u32 = 1;
    let mut prev: (u32, u32) = (0, 0);
    let mut i = 0;
    while i < E {
        let fc: u32 = kani::any();
        let spc: u32 = kani::any();
        if i > 0 {
            first_sample = match fc.checked_sub(prev.0).and_then(|n| n.checked_mul(prev.1)).and_then(|n| n.checked_add(first_sample)) {
                Some(v) => v,
                None => return None,
            };
        }
        b.entries.push(StscEntry { first_chunk: fc, samples_per_chunk: spc, sample_description_index: kani::any(), first_sample });
        prev = (fc, spc);
        i += 1;
    }
    Some(b)
}

fn arbitrary_stbl<const E: usize, const S: usize, const C: usize>(co: u8) -> Option<StblBox> {
    let mut stbl = StblBox::default();
    stbl.stsc = arbitrary_stsc::<E>()?;
    let sizes: [u32; S] = kani::any();
    stbl.stsz.sample_size = kani::any();
    stbl.stsz.sample_count = kani::any();
    if stbl.stsz.sample_size == 0 {
        // the decoder fills the table only in table mode, with sample_count entries
        kani::assume(stbl.stsz.sample_count == S as u32);
        stbl.stsz.sample_sizes = sizes.to_vec();
    }
    if co & 1 != 0 {
        let o: [u32; C] = kani::any();
        let mut b = StcoBox::default();
        b.entries = o.to_vec();
        stbl.stco = Some(b);
    }
    if co & 2 != 0 {
        let o: [u64; C] = kani::any();
        let mut b = Co64Box::default();
        b.entries = o.to_vec();
        stbl.co64 = Some(b);
    }
    Some(stbl)
}

/// sample_offset(k) for every k on arbitrary chunk tables: returns, never panics.
fn h06_offset<const E: usize, const S: usize, const C: usize>(co: u8) {
    let stbl = match arbitrary_stbl::<E, S, C>(co) {
        Some(s) => s,
        None => return,
    };
    let track = track_from(stbl);
    let k: u32 = kani::any();
    match track.sample_offset(k) {
        Ok(_) => kani::cover!(true, "(opt) offset found"),
        Err(e) => std::mem::forget(e),
    }
    let c = track.sample_count();
    kani::cover!(true, "returned");
    std::mem::forget(track);
}

#[kani::proof]
#[kani::unwind(5)]
fn q_h06trk__offset_e1_s2_stco2() {
    h06_offset::<1, 2, 2>(1)
}
#[kani::proof]
#[kani::unwind(5)]
fn q_h06trk__offset_e2_s2_co64x2() {
    h06_offset::<2, 2, 2>(2)
}
#[kani::proof]
#[kani::unwind(5)]
fn q_h06trk__offset_e1_s0_nochunktable() {
    h06_offset::<1, 0, 0>(0)
}
#[kani::proof]
#[kani::unwind(5)]
fn q_h06trk__offset_e0_s1_both() {
    h06_offset::<0, 1, 1>(3)
}
#[kani::proof]
#[kani::unwind(6)]
fn t_h06trk__offset_e2_s3_stco3() {
    h06_offset::<2, 3, 3>(1)
}

/// read_sample(k) for every k on arbitrary tables and an arbitrary 16-byte stream. Sample sizes are
/// bounded by 4 (a sample buffer of symbolic 32-bit size does not get through CBMC; the size of
/// that request is C08's subject).
fn h06_read<const E: usize, const S: usize, const T: usize>(co: u8, ctts: bool, stss: bool) {
    let mut stbl = match arbitrary_stbl::<E, S, 2>(co) {
        Some(s) => s,
        None => return,
    };
    kani::assume(stbl.stsz.sample_size <= 4);
    let mut i = 0;
    while i < stbl.stsz.sample_sizes.len() && i < S {
        kani::assume(stbl.stsz.sample_sizes[i] <= 4);
        i += 1;
    }
    let mut i = 0;
    while i < T {
        stbl.stts.entries.push(SttsEntry { sample_count: kani::any(), sample_delta: kani::any() });
        i += 1;
    }
    if ctts {
        let mut c = CttsBox::default();
        let mut i = 0;
        while i < T {
            c.entries.push(CttsEntry { sample_count: kani::any(), sample_offset: kani::any() });
            i += 1;
        }
        stbl.ctts = Some(c);
    }
    if stss {
        let mut s = StssBox::default();
        let e: [u32; T] = kani::any();
        s.entries = e.to_vec();
        stbl.stss = Some(s);
    }
    let track = track_from(stbl);
    let data: [u8; 16] = kani::any();
    let mut cur = Cursor::new(&data[..]);
    let k: u32 = kani::any();
    match track.verif_read_sample(&mut cur, k) {
        Ok(Some(s)) => {
            kani::cover!(true, "(opt) sample returned");
            std::mem::forget(s);
        }
        Ok(None) => {}
        Err(e) => std::mem::forget(e),
    }
    kani::cover!(true, "returned");
    std::mem::forget(track);
}

#[kani::proof]
#[kani::unwind(5)]
fn q_h06trk__read_e1_s2_t1_plain() {
    h06_read::<1, 2, 1>(1, false, false)
}
#[kani::proof]
#[kani::unwind(5)]
fn q_h06trk__read_e1_s2_t0_stts_shorter_than_stsz() {
    h06_read::<1, 2, 0>(1, false, false)
}
#[kani::proof]
#[kani::unwind(5)]
fn q_h06trk__read_e2_s2_t2_ctts_stss() {
    h06_read::<2, 2, 2>(2, true, true)
}

/// duration / frame_rate / bitrate and the plain accessors on symbolic header values.
#[kani::proof]
#[kani::unwind(5)]
fn q_h06trk__duration_framerate_bitrate() {
    let mut stbl = StblBox::default();
    stbl.stsz.sample_size = kani::any();
    stbl.stsz.sample_count = kani::any();
    let sizes: [u32; 2] = kani::any();
    if stbl.stsz.sample_size == 0 {
        stbl.stsz.sample_sizes = sizes.to_vec();
    }
    let mut track = track_from(stbl);
    track.trak.mdia.mdhd.duration = kani::any();
    track.trak.mdia.mdhd.timescale = kani::any();
    track.trak.tkhd.width = FixedPointU16::new_raw(kani::any());
    track.trak.tkhd.height = FixedPointU16::new_raw(kani::any());
    track.trak.mdia.hdlr.handler_type = FourCC::from(kani::any::<[u8; 4]>());
    let d = track.duration();
    let f = track.frame_rate();
    let b = track.bitrate();
    let _ = (track.track_id(), track.width(), track.height(), track.timescale(), track.sample_count());
    match track.track_type() {
        Ok(_) => {}
        Err(e) => std::mem::forget(e),
    }
    match track.media_type() {
        Ok(_) => {}
        Err(e) => std::mem::forget(e),
    }
    match track.box_type() {
        Ok(_) => {}
        Err(e) => std::mem::forget(e),
    }
    match track.video_profile() {
        Ok(_) => {}
        Err(e) => std::mem::forget(e),
    }
    match track.audio_profile() {
        Ok(_) => {}
        Err(e) => std::mem::forget(e),
    }
    match track.sample_freq_index() {
        Ok(_) => {}
        Err(e) => std::mem::forget(e),
    }
    match track.channel_config() {
        Ok(_) => {}
        Err(e) => std::mem::forget(e),
    }
    match track.sequence_parameter_set() {
        Ok(_) => {}
        Err(e) => std::mem::forget(e),
    }
    match track.picture_parameter_set() {
        Ok(_) => {}
        Err(e) => std::mem::forget(e),
    }
    assert!(track.language().len() == 3);
    kani::cover!(true, "returned");
    std::mem::forget(track);
}


// ------------------------------------------------------------------------------------------
// Fragment side: Mp4Track with arbitrary trafs *as the decoders can produce them* (per-sample
// vectors have sample_count entries exactly for the flagged fields; one moof offset per traf, as
// read_header pushes them), every value symbolic, every sample id.
fn arbitrary_traf<const N: usize>(flags: u32) -> TrafBox {
    let mut tfhd = TfhdBox::default();
    tfhd.track_id = 1;
    if kani::any() {
        tfhd.base_data_offset = Some(kani::any());
    }
    if kani::any() {
        tfhd.default_sample_duration = Some(kani::any());
    }
    let mut trun = TrunBox::default();
    trun.flags = flags;
    trun.sample_count = N as u32;
    if flags & 0x001 != 0 {
        trun.data_offset = Some(kani::any());
    }
    let a: [u32; N] = kani::any();
    let b: [u32; N] = kani::any();
    let c: [u32; N] = kani::any();
    if flags & 0x100 != 0 {
        trun.sample_durations = a.to_vec();
    }
    if flags & 0x200 != 0 {
        trun.sample_sizes = b.to_vec();
    }
    if flags & 0x800 != 0 {
        trun.sample_cts = c.to_vec();
    }
    let tfdt = if kani::any() { Some(TfdtBox { version: 1, flags: 0, base_media_decode_time: kani::any() }) } else { None };
    TrafBox { tfhd, tfdt, trun: Some(trun) }
}

fn h06_frag<const N1: usize, const N2: usize>(f1: u32, f2: u32, two: bool) {
    let mut trak = TrakBox::default();
    trak.tkhd.track_id = 1;
    let mut track = Mp4Track { trak, trafs: Vec::new(), moof_offsets: Vec::new(), default_sample_duration: kani::any() };
    track.trafs.push(arbitrary_traf::<N1>(f1));
    track.moof_offsets.push(kani::any());
    if two {
        track.trafs.push(arbitrary_traf::<N2>(f2));
        track.moof_offsets.push(kani::any());
    }
    let k: u32 = kani::any();
    let _ = track.sample_count();
    match track.sample_offset(k) {
        Ok(_) => {}
        Err(e) => std::mem::forget(e),
    }
    let data: [u8; 8] = kani::any();
    let mut cur = Cursor::new(&data[..]);
    match track.verif_read_sample(&mut cur, k) {
        Ok(Some(s)) => {
            kani::cover!(true, "(opt) sample returned");
            std::mem::forget(s);
        }
        Ok(None) => {}
        Err(e) => std::mem::forget(e),
    }
    kani::cover!(true, "returned");
    std::mem::forget(track);
}

#[kani::proof]
#[kani::unwind(5)]
fn t_h06frag__one_traf_n2_sizes_durations() {
    h06_frag::<2, 0>(0x301, 0, false)
}
#[kani::proof]
#[kani::unwind(5)]
fn t_h06frag__one_traf_n1_sizes_only() {
    h06_frag::<1, 0>(0x200, 0, false)
}
#[kani::proof]
#[kani::unwind(5)]
fn q_h06frag__two_trafs_n1_n0() {
    h06_frag::<1, 0>(0xb01, 0x200, true)
}
#[kani::proof]
#[kani::unwind(5)]
fn t_h06frag__two_trafs_n2_n1_no_sizes() {
    h06_frag::<2, 1>(0x100, 0x800, true)
}
