//! C05 — box wire formats conform to the ISO layouts. Per-shape wrappers: gen/c05.rs.
use crate::common::boxes::*;
use mp4::verif_hooks::*;
use mp4::*;
use std::io::Cursor;
