//! C05 — box wire formats conform to the ISO layouts. Per-shape wrappers: gen/c05.rs.
use crate::common::boxes::*;
use mp4::verif_hooks::*;
use mp4::*;
use std::io::Cursor;

#[kani::proof]
#[kani::unwind(5)]
fn q_h05dec__esds() {
    crate::c05_decode_ref!(EsdsBox, any_esds(), ref_esds, 47);
}
#[kani::proof]
#[kani::unwind(8)]
fn q_h05dec__avcc_s1x4_p1x2() {
    crate::c05_decode_ref!(AvcCBox, any_avcc::<1, 4, 1, 2>(), ref_avcc, 33);
}
#[kani::proof]
#[kani::unwind(6)]
fn q_h05dec__hvcc_a1_n1x2() {
    crate::c05_decode_ref!(HvcCBox, any_hvcc::<1, 1, 2>(), ref_hvcc, 46);
}
