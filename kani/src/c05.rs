//! C05 — box wire formats conform to the ISO layouts. Per-shape wrappers: gen/c05.rs.
use crate::common::boxes::*;
use mp4::verif_hooks::*;
use mp4::*;
use std::io::Cursor;

/// esds decode from reference bytes, concrete AudioSpecificConfig per harness (see any_esds_asc).
macro_rules! esds_dec {
    ($name:ident, $p:expr, $f:expr, $c:expr) => {
        #[kani::proof]
        #[kani::unwind(6)]
        fn $name() {
            crate::c05_decode_ref!(EsdsBox, any_esds_asc($p, $f, $c), ref_esds, 47);
        }
    };
}
esds_dec!(q_h05dec__esds_lc_48000_stereo, 2, 3, 2);
esds_dec!(q_h05dec__esds_lc_16000_mono, 2, 8, 1);
esds_dec!(q_h05dec__esds_sbr_7350_51, 5, 12, 6);
esds_dec!(q_h05dec__esds_main_96000_71, 1, 0, 7);
esds_dec!(t_h05dec__esds_ps_11025_stereo, 29, 10, 2);
esds_dec!(t_h05dec__esds_ltp_8000_three, 4, 11, 3);
esds_dec!(t_h05dec__esds_lc_44100_four, 2, 4, 4);
esds_dec!(t_h05dec__esds_lc_12000_five, 2, 9, 5);
esds_dec!(t_h05dec__esds_ssr_22050_mono, 3, 7, 1);

/// mp4a with that esds inside, decoded from reference bytes
#[kani::proof]
#[kani::unwind(6)]
fn q_h05dec__mp4a_esds_lc_16000_mono() {
    let mut v = any_mp4a(false);
    v.esds = Some(any_esds_asc(2, 8, 1));
    crate::c05_decode_ref!(Mp4aBox, v, ref_mp4a, 83);
}

