//! Generated per-shape wrappers (shapes/*.py).
pub mod c03;
pub mod c04;
pub mod c05;
pub mod c06;
pub mod c07;
pub mod c08;
