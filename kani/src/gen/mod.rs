//! Generated per-shape wrappers (shapes/*.py).
pub mod c03;
