//! C11 — truncated input never yields wrong data. Unit level, symbolic cut position: the
//! reference encoding of a symbolic value is cut at `c` and decoded with the declared size; the
//! result is an error or the original value. Sample payload: cut stream.
use crate::common::boxes::*;
use crate::common::model::*;
use mp4::verif_hooks::*;
use mp4::*;
use std::io::Cursor;

macro_rules! cut {
    ($name:ident, $unwind:expr, $ty:ty, $v:expr, $refenc:path, $nb:expr) => {
        #[kani::proof]
        #[kani::unwind($unwind)]
        fn $name() {
            let v: $ty = $v;
            let mut bytes = [0u8; $nb];
            let n = $refenc(&v, &mut bytes);
            let c: usize = kani::any();
            kani::assume(c < n); // a proper prefix
            let mut r = Cursor::new(&bytes[..c]);
            match BoxHeader::read(&mut r) {
                Ok(h) => match <$ty>::read_box(&mut r, h.size) {
                    Ok(back) => {
                        assert!(back == v, "C11 a truncated box decodes to the original value or not at all");
                        kani::cover!(true, "(opt) prefix accepted with the original value");
                        std::mem::forget(back);
                    }
                    Err(e) => {
                        kani::cover!(true, "(opt) cut detected");
                        std::mem::forget(e);
                    }
                },
                Err(e) => std::mem::forget(e),
            }
            kani::cover!(c + 1 == n, "cut one byte before the end");
            std::mem::forget(v);
        }
    };
}
cut!(q_h11cut__stts_e1, 5, SttsBox, any_stts::<1>(), ref_stts, 32);
cut!(q_h11cut__stsc_e1, 5, StscBox, any_stsc::<1>(), ref_stsc, 36);
cut!(t_h11cut__stsz_table_e1, 11, StszBox, any_stsz::<1>(false), ref_stsz, 32);
cut!(q_h11cut__stco_e1, 11, StcoBox, any_stco::<1>(), ref_stco, 28);
cut!(q_h11cut__ctts_e1, 5, CttsBox, any_ctts::<1>(), ref_ctts, 32);
cut!(q_h11cut__tkhd_v0, 4, TkhdBox, any_tkhd(0), ref_tkhd, 100);
cut!(q_h11cut__tfhd_opt39, 4, TfhdBox, any_tfhd(0x39), ref_tfhd, 48);
cut!(q_h11cut__trun_opt301_n1, 11, TrunBox, any_trun::<1>(0x301), ref_trun, 40);
cut!(t_h11cut__mvex_trex, 6, MvexBox, any_mvex(None), ref_mvex, 48);
cut!(t_h11cut__stts_e2, 6, SttsBox, any_stts::<2>(), ref_stts, 40);
cut!(t_h11cut__stsc_e2, 6, StscBox, any_stsc::<2>(), ref_stsc, 48);
cut!(t_h11cut__stsz_table_e2, 19, StszBox, any_stsz::<2>(false), ref_stsz, 36);
cut!(t_h11cut__stco_e2, 19, StcoBox, any_stco::<2>(), ref_stco, 32);
cut!(t_h11cut__co64_e1, 11, Co64Box, any_co64::<1>(), ref_co64, 32);
cut!(t_h11cut__stss_e2, 19, StssBox, any_stss::<2>(), ref_stss, 32);
cut!(t_h11cut__trun_opt301_n2, 19, TrunBox, any_trun::<2>(0x301), ref_trun, 48);
cut!(t_h11cut__mvex_mehd_trex, 6, MvexBox, any_mvex(Some(0)), ref_mvex, 64);
cut!(t_h11cut__traf_tfhd_tfdt_trun, 12, TrafBox, any_traf::<1>(Some(1), true), ref_traf, 84);
cut!(t_h11cut__mvhd_v1, 27, MvhdBox, any_mvhd(1), ref_mvhd, 128);
cut!(t_h11cut__elst_v0_e2, 6, ElstBox, any_elst::<2>(0), ref_elst, 48);
cut!(t_h11cut__ftyp_b2, 19, FtypBox, any_ftyp::<2>(), ref_ftyp, 32);
cut!(t_h11cut__tfdt_v1, 4, TfdtBox, any_tfdt(1), ref_tfdt, 28);
cut!(t_h11cut__edts_v0_e1, 6, EdtsBox, any_edts::<1>(0), ref_edts, 44);
cut!(t_h11cut__moof_t2, 8, MoofBox, any_moof::<2>(), ref_moof, 88);

/// Sample payload on a cut stream: consistent two-sample track, stream cut at a symbolic position:
/// read_sample is an error or identical in bytes and timing to the uncut stream's sample.
#[kani::proof]
#[kani::unwind(6)]
fn q_h11sample__cut_stream() {
    let mut stbl = StblBox::default();
    stbl.stsc = stsc_from(&[Run { first_chunk: 1, spc: 2, first_sample: 1 }]);
    stbl.stsz.sample_count = 2;
    stbl.stsz.sample_sizes.push(2);
    stbl.stsz.sample_sizes.push(3);
    let mut co = StcoBox::default();
    let off: u32 = kani::any();
    kani::assume(off <= 11);
    co.entries.push(off);
    stbl.stco = Some(co);
    let d: u32 = kani::any();
    stbl.stts.entries.push(SttsEntry { sample_count: 2, sample_delta: d });
    let track = track_from(stbl);
    let data: [u8; 16] = kani::any();
    let c: usize = kani::any();
    kani::assume(c < 16);
    let k: u32 = kani::any();
    kani::assume(k == 1 || k == 2);
    let mut cur = Cursor::new(&data[..c]);
    match track.verif_read_sample(&mut cur, k) {
        Ok(Some(s)) => {
            let (o, len) = if k == 1 { (off as usize, 2usize) } else { (off as usize + 2, 3usize) };
            assert!(s.bytes.len() == len, "C11 a sample of a truncated file has its full length or is an error");
            assert!(o + len <= c, "C11 a sample reaching past the cut is an error");
            let i: usize = kani::any();
            kani::assume(i < len);
            assert!(s.bytes[i] == data[o + i], "C11 sample bytes are the bytes at that place in the original");
            assert!(s.duration == d && s.start_time == (k as u64 - 1) * d as u64, "C11 timing identical to the complete file");
            kani::cover!(true, "(opt) sample before the cut");
            std::mem::forget(s);
        }
        Ok(None) => assert!(false, "C11 the sample exists in the tables"),
        Err(e) => {
            kani::cover!(true, "(opt) sample past the cut is an error");
            std::mem::forget(e);
        }
    }
    kani::cover!(true, "returned");
    std::mem::forget(track);
}
