//! C13 — 32-bit to 64-bit transitions in the muxer are lossless. The 4 GiB boundaries are
//! reached symbolically: the output is a position-only sparse stream (common/wr.rs) whose start
//! offset and payload gap are `kani::any()`, so "just below, at, above 2^32" are just values.
use crate::c01::*;
use crate::common::cc;
use crate::common::wr::Sparse;
use mp4::verif_hooks::*;
use mp4::*;
use std::io::{Cursor, Seek, SeekFrom};

const POS_LIMIT: u64 = 1 << 40;

/// BoxHeader::write then BoxHeader::read over the full size range: the reader's view of the box
/// extent equals what the writer's caller emits. The caller emits `size - 8` payload bytes after
/// the header (every box_size() counts an 8-byte header); the reader's callers treat
/// `size' - 8` bytes after the header as payload.
#[kani::proof]
#[kani::unwind(4)]
fn q_h13hdr__write_read_all_sizes() {
    let size: u64 = kani::any();
    let ty: u32 = kani::any();
    kani::assume(size >= 8 && size < (1 << 62));
    let mut buf = [0u8; 16];
    let hdr_len = {
        let mut w = Cursor::new(&mut buf[..]);
        match BoxHeader::new(BoxType::from(ty), size).write(&mut w) {
            Ok(n) => {
                assert!(n == w.position(), "C13 header write returns the bytes written");
                n
            }
            Err(e) => {
                std::mem::forget(e);
                assert!(false, "C13 writing a header succeeds");
                return;
            }
        }
    };
    assert!((hdr_len == 16) == (size > u32::MAX as u64), "C13 the 64-bit form is used exactly above u32::MAX");
    let mut r = Cursor::new(&buf[..]);
    match BoxHeader::read(&mut r) {
        Ok(h) => {
            assert!(r.position() == hdr_len, "C13 the reader consumes the header that was written");
            let back: u32 = h.name.into();
            assert!(back == ty, "C13 type survives");
            assert!(h.size - 8 == size - 8, "C13 the reader sees the payload length the writer's caller emits");
            kani::cover!(size > u32::MAX as u64, "64-bit form");
            kani::cover!(size <= u32::MAX as u64, "32-bit form");
        }
        Err(e) => {
            std::mem::forget(e);
            assert!(false, "C13 the written header is readable");
        }
    }
}

/// mdat size patch of a zero-track writer (the mdat logic does not look at tracks): start offset
/// p0 and payload gap g symbolic.
#[kani::proof]
#[kani::unwind(26)]
fn q_h13mdat__size_patch_any_start_any_gap() {
    let p0: u64 = kani::any();
    let g: u64 = kani::any();
    kani::assume(p0 < POS_LIMIT && g < POS_LIMIT);
    let cfg = Mp4Config { major_brand: FourCC::from(*b"isom"), minor_version: 0, compatible_brands: Vec::new(), timescale: 1000 };
    // the layout is known in advance: ftyp is 16 bytes, mdat header + wide placeholder 16 more
    let mdat_at = p0 + 16;
    let mdat_end = p0 + 32 + g;
    let mut sp = Sparse::new(p0);
    let h_size = sp.watch(mdat_at, 4);
    let h_type = sp.watch(mdat_at + 4, 4);
    let h_wide_size = sp.watch(mdat_at + 8, 4);
    let h_wide_type = sp.watch(mdat_at + 12, 4);
    let h_large = sp.watch(mdat_at + 8, 8);
    let h_moov_type = sp.watch(mdat_end + 4, 4);
    let mut w = match Mp4Writer::write_start(sp, &cfg) {
        Ok(w) => w,
        Err(e) => {
            std::mem::forget(e);
            assert!(false, "C13 write_start succeeds");
            return;
        }
    };
    std::mem::forget(cfg);
    let (mdat_pos, _, _, _) = w.verif_state();
    assert!(mdat_pos == mdat_at, "C13 mdat follows the 16-byte ftyp");
    // payload stand-in: seek over g bytes
    {
        let s = w.verif_writer_mut();
        assert!(s.pos == p0 + 32, "C13 ftyp + mdat header + wide placeholder");
        let _ = s.seek(SeekFrom::Start(mdat_end));
    }
    match w.write_end() {
        Ok(()) => {}
        Err(e) => {
            std::mem::forget(e);
            assert!(false, "C13 write_end succeeds");
            return;
        }
    }
    let s = w.verif_writer();
    let m = mdat_end - mdat_pos;
    assert!(s.seen(h_type) == Some(cc(b"mdat") as u64), "C13 the mdat type is intact");
    if m <= u32::MAX as u64 {
        assert!(s.seen(h_size) == Some(m), "C13 a media-data size that fits is stored in the 32-bit field");
        assert!(s.seen(h_large).is_none(), "C13 no extended size is written when the 32-bit field suffices");
        assert!(s.seen(h_wide_size) == Some(8) && s.seen(h_wide_type) == Some(cc(b"wide") as u64), "C13 the placeholder stays a valid 8-byte box");
    } else {
        assert!(s.seen(h_size) == Some(1), "C13 a media-data size beyond 32 bits switches to the extended form");
        assert!(s.seen(h_large) == Some(m), "C13 the extended size field holds the full size");
    }
    // the box after mdat, found the way a reader finds it (mdat start + size), is moov
    assert!(s.seen(h_moov_type) == Some(cc(b"moov") as u64), "C13 the media-data box ends where moov starts");
    kani::cover!(m > u32::MAX as u64, "extended form");
    kani::cover!(m == u32::MAX as u64, "exactly u32::MAX");
    kani::cover!(m == 16, "empty media data");
    std::mem::forget(w);
}

/// The chunk offset recorded is the stream position at flush for every start position, and
/// write_end keeps 64-bit offsets exactly when one does not fit 32 bits.
#[kani::proof]
#[kani::unwind(5)]
fn q_h13co64__offset_any_start_and_write_end() {
    let p0: u64 = kani::any();
    kani::assume(p0 < POS_LIMIT);
    let cfg = track_config(Kind::Ttxt, 1000);
    let mut tw = match VerifTrackWriter::new(1, &cfg) {
        Ok(t) => t,
        Err(e) => {
            std::mem::forget(e);
            return;
        }
    };
    std::mem::forget(cfg);
    let mut s = Sparse::new(p0);
    let h_payload = s.watch(p0, 1);
    let b: [u8; 1] = kani::any();
    let smp = Mp4Sample { start_time: 0, duration: 1000, rendering_offset: 0, is_sync: true, bytes: Bytes::copy_from_slice(&b) };
    match tw.write_sample(&mut s, &smp, 1000) {
        Ok(_) => {}
        Err(e) => {
            std::mem::forget(e);
            assert!(false, "C13 write_sample succeeds");
        }
    }
    std::mem::forget(smp);
    {
        let co = tw.trak().mdia.minf.stbl.co64.as_ref();
        assert!(co.map(|c| c.entries.len()) == Some(1), "C13 one chunk was flushed");
        assert!(co.map(|c| c.entries[0]) == Some(p0), "C13 the chunk offset recorded is the stream position at flush");
    }
    assert!(s.seen(h_payload) == Some(b[0] as u64), "C13 the payload is at the recorded offset");
    match tw.write_end(&mut s) {
        Ok(trak) => {
            let stbl = &trak.mdia.minf.stbl;
            if p0 > u32::MAX as u64 {
                assert!(stbl.stco.is_none(), "C13 an offset beyond 32 bits is never stored in a 32-bit table");
                assert!(stbl.co64.as_ref().map(|c| c.entries.len() == 1 && c.entries[0] == p0) == Some(true), "C13 64-bit chunk offsets are kept intact");
            } else {
                assert!(stbl.co64.is_none() && stbl.stco.as_ref().map(|c| c.entries.len() == 1 && c.entries[0] as u64 == p0) == Some(true), "C13 offsets that fit are stored losslessly in stco");
            }
            kani::cover!(p0 > u32::MAX as u64, "offset beyond 2^32");
            kani::cover!(p0 == u32::MAX as u64, "offset exactly u32::MAX");
            std::mem::forget(trak);
        }
        Err(e) => {
            std::mem::forget(e);
            assert!(false, "C13 write_end succeeds");
        }
    }
    std::mem::forget(tw);
}

/// Header versions follow the durations: version 1 exactly when a duration exceeds u32::MAX (so a
/// version-0 layout never truncates), for full-range sample durations and timescales.
fn h13_dur<const K: usize>() {
    let track_ts: u32 = kani::any();
    let movie_ts: u32 = kani::any();
    kani::assume(track_ts >= 1 && movie_ts >= 1);
    let cfg = track_config(Kind::Ttxt, track_ts);
    let mut tw = match VerifTrackWriter::new(1, &cfg) {
        Ok(t) => t,
        Err(e) => {
            std::mem::forget(e);
            return;
        }
    };
    std::mem::forget(cfg);
    let mut s = Sparse::new(0);
    let dur: [u32; K] = kani::any();
    let mut sum: u64 = 0;
    let mut i = 0;
    while i < K {
        // keep the running chunk duration (u32) from overflowing: that panic is C17's subject
        kani::assume(dur[i] as u64 + (if i > 0 && (dur[i - 1] < track_ts) { dur[i - 1] as u64 } else { 0 }) <= u32::MAX as u64);
        let smp = Mp4Sample { start_time: 0, duration: dur[i], rendering_offset: 0, is_sync: true, bytes: Bytes::new() };
        match tw.write_sample(&mut s, &smp, movie_ts) {
            Ok(_) => {}
            Err(e) => {
                std::mem::forget(e);
                assert!(false, "C13 write_sample succeeds");
            }
        }
        std::mem::forget(smp);
        sum += dur[i] as u64;
        i += 1;
    }
    let t = tw.trak();
    assert!(t.mdia.mdhd.duration == sum, "C13 the media duration is the 64-bit sum");
    assert!((t.mdia.mdhd.version == 1) == (t.mdia.mdhd.duration > u32::MAX as u64), "C13 mdhd is version 1 exactly when its duration needs 64 bits");
    assert!((t.tkhd.version == 1) == (t.tkhd.duration > u32::MAX as u64), "C13 tkhd is version 1 exactly when its duration needs 64 bits");
    kani::cover!(K < 2 || t.mdia.mdhd.version == 1, "media duration beyond 2^32");
    kani::cover!(t.tkhd.version == 1 && t.mdia.mdhd.version == 0, "(opt) track header crosses first");
    kani::cover!(true, "durations checked");
    std::mem::forget(tw);
}

#[kani::proof]
#[kani::unwind(4)]
fn q_h13dur__k1() {
    h13_dur::<1>()
}
#[kani::proof]
#[kani::unwind(5)]
fn t_h13dur__k2() {
    h13_dur::<2>()
}
