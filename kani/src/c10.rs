//! C10 — I/O failures surface as errors; short reads and writes are transparent.
//! The failing call index k, the fault kind, the chunk size and the interrupted call are symbolic.
use crate::c01::*;
use crate::common::boxes::*;
use crate::common::model::*;
use crate::common::rd::*;
use crate::common::wr::*;
use mp4::verif_hooks::*;
use mp4::*;
use std::io::Cursor;

/// decode reference bytes of `$v` through a reader whose k-th call fails: the result is an I/O
/// error exactly when the fault fired; otherwise it equals the value.
macro_rules! fail_read {
    ($name:ident, $unwind:expr, $ty:ty, $v:expr, $refenc:path, $nb:expr) => {
        #[kani::proof]
        #[kani::unwind($unwind)]
        fn $name() {
            let v: $ty = $v;
            let mut bytes = [0u8; $nb];
            let n = $refenc(&v, &mut bytes) as u64;
            let k: u32 = kani::any();
            let mut r = fail_at(&bytes[..], 8, k);
            match <$ty>::read_box(&mut r, n) {
                Ok(back) => {
                    assert!(!r.fired, "C10 a failed stream call never results in success");
                    assert!(back == v, "C10 without a fault the result is the fault-free one");
                    kani::cover!(true, "fault-free run (k beyond the calls made)");
                    std::mem::forget(back);
                }
                Err(Error::IoError(e)) => {
                    assert!(r.fired, "C10 an I/O error is reported only when the stream failed");
                    kani::cover!(true, "fault surfaced as an I/O error");
                    std::mem::forget(e);
                }
                Err(e) => {
                    std::mem::forget(e);
                    assert!(false, "C10 a stream failure surfaces as an I/O error, nothing else");
                }
            }
            std::mem::forget(v);
        }
    };
}
fail_read!(q_h10rd__tkhd_v0, 4, TkhdBox, any_tkhd(0), ref_tkhd, 100);
fail_read!(q_h10rd__stts_e1, 5, SttsBox, any_stts::<1>(), ref_stts, 32);
fail_read!(t_h10rd__stsc_e2, 6, StscBox, any_stsc::<2>(), ref_stsc, 48);
fail_read!(q_h10rd__tfhd_opt39, 4, TfhdBox, any_tfhd(0x39), ref_tfhd, 48);
fail_read!(t_h10rd__trun_opt301_n1, 12, TrunBox, any_trun::<1>(0x301), ref_trun, 40);
fail_read!(t_h10rd__mvhd_v1, 4, MvhdBox, any_mvhd(1), ref_mvhd, 128);
fail_read!(t_h10rd__elst_v1_e1, 5, ElstBox, any_elst::<1>(1), ref_elst, 48);
fail_read!(t_h10rd__co64_e2, 19, Co64Box, any_co64::<2>(), ref_co64, 40);
fail_read!(t_h10rd__vmhd, 4, VmhdBox, any_vmhd(), ref_vmhd, 28);

/// BoxHeader::read (both size forms) under a failing k-th call.
#[kani::proof]
#[kani::unwind(4)]
fn q_h10rd__box_header() {
    let bytes: [u8; 16] = kani::any();
    let k: u32 = kani::any();
    let mut r = fail_at(&bytes[..], 0, k);
    match BoxHeader::read(&mut r) {
        Ok(_) => assert!(!r.fired, "C10 a failed stream call never results in success"),
        Err(Error::IoError(e)) => {
            assert!(r.fired, "C10 I/O error only when the stream failed");
            std::mem::forget(e);
        }
        Err(e) => {
            // "64-bit box size too small" is a data error and needs no fault
            assert!(!r.fired, "C10 a stream failure surfaces as an I/O error");
            std::mem::forget(e);
        }
    }
    kani::cover!(r.fired, "fault fired");
    kani::cover!(!r.fired, "no fault");
}

/// read_sample under a failing k-th call.
#[kani::proof]
#[kani::unwind(5)]
fn q_h10rd__read_sample() {
    let mut stbl = StblBox::default();
    stbl.stsc = stsc_from(&[Run { first_chunk: 1, spc: 1, first_sample: 1 }]);
    stbl.stsz.sample_count = 1;
    stbl.stsz.sample_sizes.push(2);
    let mut co = StcoBox::default();
    let off: u32 = kani::any();
    kani::assume(off <= 14);
    co.entries.push(off);
    stbl.stco = Some(co);
    stbl.stts.entries.push(SttsEntry { sample_count: 1, sample_delta: kani::any() });
    let track = track_from(stbl);
    let data: [u8; 16] = kani::any();
    let k: u32 = kani::any();
    let mut r = fail_at(&data[..], 0, k);
    match track.verif_read_sample(&mut r, 1) {
        Ok(Some(s)) => {
            assert!(!r.fired, "C10 a failed stream call never results in success");
            assert!(s.bytes.len() == 2 && s.bytes[0] == data[off as usize] && s.bytes[1] == data[off as usize + 1], "C10 fault-free result");
            std::mem::forget(s);
        }
        Ok(None) => assert!(false, "C10 the sample exists"),
        Err(Error::IoError(e)) => {
            assert!(r.fired, "C10 I/O error only when the stream failed");
            std::mem::forget(e);
        }
        Err(e) => {
            std::mem::forget(e);
            assert!(false, "C10 a stream failure surfaces as an I/O error");
        }
    }
    kani::cover!(r.fired, "fault fired");
    kani::cover!(!r.fired, "no fault");
    std::mem::forget(track);
}

/// encode `$v` through a writer whose k-th call fails (error or zero-length write).
macro_rules! fail_write {
    ($name:ident, $unwind:expr, $ty:ty, $v:expr, $nb:expr) => {
        #[kani::proof]
        #[kani::unwind($unwind)]
        fn $name() {
            let v: $ty = $v;
            let mut out = [0u8; $nb];
            let k: u32 = kani::any();
            let fault = if kani::any() { Fault::Error } else { Fault::ZeroWrite };
            let mut w = fail_w(&mut out[..], k, fault);
            match v.write_box(&mut w) {
                Ok(n) => {
                    assert!(!w.fired, "C10 a failed stream call never results in success");
                    assert!(n == v.box_size());
                    kani::cover!(true, "fault-free run");
                }
                Err(Error::IoError(e)) => {
                    assert!(w.fired, "C10 I/O error only when the stream failed");
                    kani::cover!(fault == Fault::ZeroWrite, "zero-length write surfaced as an I/O error");
                    kani::cover!(fault == Fault::Error, "write error surfaced as an I/O error");
                    std::mem::forget(e);
                }
                Err(e) => {
                    std::mem::forget(e);
                    assert!(false, "C10 a stream failure surfaces as an I/O error, nothing else");
                }
            }
            std::mem::forget(v);
        }
    };
}
fail_write!(t_h10wr__tkhd_v1, 4, TkhdBox, any_tkhd(1), 112);
fail_write!(q_h10wr__stts_e1, 5, SttsBox, any_stts::<1>(), 32);
fail_write!(t_h10wr__stts_e2, 6, SttsBox, any_stts::<2>(), 40);
fail_write!(q_h10wr__mfhd, 4, MfhdBox, any_mfhd(), 24);
fail_write!(t_h10wr__mvhd_v0, 27, MvhdBox, any_mvhd(0), 116);
fail_write!(t_h10wr__tfhd_opt39, 4, TfhdBox, any_tfhd(0x39), 48);
fail_write!(t_h10wr__stsc_e2, 6, StscBox, any_stsc::<2>(), 48);
fail_write!(t_h10wr__trun_opt301_n2, 6, TrunBox, any_trun::<2>(0x301), 48);
fail_write!(t_h10wr__avc1, 36, Avc1Box, any_avc1::<1, 4, 1, 2>(), 128);

/// write_sample + chunk flush through a failing writer.
#[kani::proof]
#[kani::unwind(5)]
fn q_h10wr__write_sample_and_flush() {
    let cfg = track_config(Kind::Ttxt, 1000);
    let mut tw = match VerifTrackWriter::new(1, &cfg) {
        Ok(t) => t,
        Err(e) => {
            std::mem::forget(e);
            return;
        }
    };
    std::mem::forget(cfg);
    let mut out = [0u8; 16];
    let k: u32 = kani::any();
    let fault = if kani::any() { Fault::Error } else { Fault::ZeroWrite };
    let mut w = fail_w(&mut out[..], k, fault);
    let b: [u8; 2] = kani::any();
    let s = Mp4Sample { start_time: 0, duration: 1000, rendering_offset: 0, is_sync: true, bytes: Bytes::copy_from_slice(&b) };
    // duration == timescale: the chunk is flushed inside write_sample
    match tw.write_sample(&mut w, &s, 1000) {
        Ok(_) => assert!(!w.fired, "C10 a failed stream call never results in success"),
        Err(Error::IoError(e)) => {
            assert!(w.fired, "C10 I/O error only when the stream failed");
            std::mem::forget(e);
        }
        Err(e) => {
            std::mem::forget(e);
            assert!(false, "C10 a stream failure surfaces as an I/O error");
        }
    }
    kani::cover!(w.fired, "fault fired");
    kani::cover!(!w.fired, "no fault");
    std::mem::forget(s);
    std::mem::forget(tw);
}

/// Mp4Writer::write_start + write_end (zero tracks: ftyp, mdat header, size patch seeks, moov)
/// through a failing writer.
#[kani::proof]
#[kani::unwind(27)]
fn t_h10wr__writer_start_end() {
    let cfg = Mp4Config { major_brand: FourCC::from(*b"isom"), minor_version: 1, compatible_brands: Vec::new(), timescale: 1000 };
    let mut out = [0u8; 192];
    let k: u32 = kani::any();
    let fault = if kani::any() { Fault::Error } else { Fault::ZeroWrite };
    match Mp4Writer::write_start(fail_w(&mut out[..], k, fault), &cfg) {
        Ok(mut w) => {
            assert!(!w.verif_writer().fired, "C10 a failed stream call never results in success");
            match w.write_end() {
                Ok(()) => assert!(!w.verif_writer().fired, "C10 a failed stream call never results in success"),
                Err(Error::IoError(e)) => {
                    assert!(w.verif_writer().fired, "C10 I/O error only when the stream failed");
                    kani::cover!(true, "(opt) fault during write_end");
                    std::mem::forget(e);
                }
                Err(e) => {
                    std::mem::forget(e);
                    assert!(false, "C10 a stream failure surfaces as an I/O error");
                }
            }
            std::mem::forget(w);
        }
        Err(Error::IoError(e)) => {
            kani::cover!(true, "(opt) fault during write_start");
            std::mem::forget(e);
        }
        Err(e) => {
            std::mem::forget(e);
            assert!(false, "C10 a stream failure surfaces as an I/O error");
        }
    }
    kani::cover!(true, "returned");
    std::mem::forget(cfg);
}

/// Short reads: a reader that hands out at most c bytes per call (c symbolic in 1..=4) and reports
/// one interrupted call gives exactly the plain result.
macro_rules! short_read {
    ($name:ident, $unwind:expr, $ty:ty, $v:expr, $refenc:path, $nb:expr) => {
        #[kani::proof]
        #[kani::unwind($unwind)]
        fn $name() {
            let v: $ty = $v;
            let mut bytes = [0u8; $nb];
            let n = $refenc(&v, &mut bytes) as u64;
            let c: usize = kani::any();
            kani::assume(c >= 1 && c <= 4);
            let mut r = chunked(&bytes[..], 8, c, kani::any());
            match <$ty>::read_box(&mut r, n) {
                Ok(back) => {
                    assert!(back == v, "C10 short and interrupted reads give exactly the same result");
                    kani::cover!(c == 1, "one byte per call");
                    std::mem::forget(back);
                }
                Err(e) => {
                    std::mem::forget(e);
                    assert!(false, "C10 short and interrupted reads are not errors");
                }
            }
            std::mem::forget(v);
        }
    };
}
short_read!(t_h10short__rd_stts_e1, 10, SttsBox, any_stts::<1>(), ref_stts, 32);
short_read!(t_h10short__rd_mfhd, 10, MfhdBox, any_mfhd(), ref_mfhd, 24);
short_read!(t_h10short__rd_tfdt_v1, 10, TfdtBox, any_tfdt(1), ref_tfdt, 28);
short_read!(t_h10short__rd_tkhd_v0, 10, TkhdBox, any_tkhd(0), ref_tkhd, 100);

/// Short writes: at most c bytes accepted per call, one interrupted call: same bytes as plain.
macro_rules! short_write {
    ($name:ident, $unwind:expr, $ty:ty, $v:expr, $refenc:path, $nb:expr) => {
        #[kani::proof]
        #[kani::unwind($unwind)]
        fn $name() {
            let v: $ty = $v;
            let mut out = [0u8; $nb];
            let c: usize = kani::any();
            kani::assume(c >= 1 && c <= 4);
            let mut w = chunked_w(&mut out[..], c, kani::any());
            match v.write_box(&mut w) {
                Ok(n) => {
                    let mut exp = [0u8; $nb];
                    let m = $refenc(&v, &mut exp);
                    assert!(n == m as u64);
                    let i: usize = kani::any();
                    kani::assume(i < $nb);
                    assert!(out[i] == exp[i], "C10 short and interrupted writes produce exactly the same bytes");
                    kani::cover!(c == 1, "one byte per call");
                }
                Err(e) => {
                    std::mem::forget(e);
                    assert!(false, "C10 short and interrupted writes are not errors");
                }
            }
            std::mem::forget(v);
        }
    };
}
short_write!(t_h10short__wr_stts_e1, 10, SttsBox, any_stts::<1>(), ref_stts, 32);
short_write!(t_h10short__wr_mfhd, 10, MfhdBox, any_mfhd(), ref_mfhd, 24);
short_write!(t_h10short__wr_mvhd_v0, 27, MvhdBox, any_mvhd(0), ref_mvhd, 116);
short_write!(t_h10short__wr_tkhd_v1, 10, TkhdBox, any_tkhd(1), ref_tkhd, 112);

/// Short transfers on the smallest unit (quick tier): BoxHeader::read through a reader that hands
/// out at most c bytes per call with one interrupted call, and BoxHeader::write through the
/// corresponding writer: same header / same bytes as the plain stream.
fn short_rd_box_header(c: usize) {
    let bytes: [u8; 16] = kani::any();
    let mut plain = Cursor::new(&bytes[..]);
    let mut r = chunked(&bytes[..], 0, c, kani::any());
    match (BoxHeader::read(&mut plain), BoxHeader::read(&mut r)) {
        (Ok(a), Ok(b)) => {
            assert!(a.size == b.size && a.name == b.name, "C10 short and interrupted reads give exactly the same result");
            kani::cover!(c == 1, "(opt) one byte per call");
        }
        (Err(a), Err(b)) => {
            std::mem::forget(a);
            std::mem::forget(b);
        }
        (a, b) => {
            std::mem::forget(a);
            std::mem::forget(b);
            assert!(false, "C10 short and interrupted reads do not change the outcome");
        }
    }
    kani::cover!(true, "compared");
}
// the chunk size is concrete per harness here (a symbolic one took 500-600 s); the interrupted call
// index stays symbolic
#[kani::proof]
#[kani::unwind(6)]
fn q_h10short__rd_box_header_3_bytes_per_call() {
    short_rd_box_header(3)
}
#[kani::proof]
#[kani::unwind(11)]
fn t_h10short__rd_box_header_1_byte_per_call() {
    short_rd_box_header(1)
}
fn short_wr_box_header(c: usize) {
    let size: u64 = kani::any();
    let ty: u32 = kani::any();
    let mut a = [0u8; 16];
    let mut b = [0u8; 16];
    let h = BoxHeader::new(BoxType::from(ty), size);
    let ra = h.write(&mut Cursor::new(&mut a[..]));
    let rb = h.write(&mut chunked_w(&mut b[..], c, kani::any()));
    match (ra, rb) {
        (Ok(x), Ok(y)) => {
            assert!(x == y);
            let i: usize = kani::any();
            kani::assume(i < 16);
            assert!(a[i] == b[i], "C10 short and interrupted writes produce exactly the same bytes");
            kani::cover!(c == 1, "(opt) one byte per call");
        }
        (Err(x), Err(y)) => {
            std::mem::forget(x);
            std::mem::forget(y);
        }
        (x, y) => {
            std::mem::forget(x);
            std::mem::forget(y);
            assert!(false, "C10 short and interrupted writes do not change the outcome");
        }
    }
    kani::cover!(true, "compared");
}
#[kani::proof]
#[kani::unwind(6)]
fn t_h10short__wr_box_header_3_bytes_per_call() {
    short_wr_box_header(3)
}
#[kani::proof]
#[kani::unwind(11)]
fn t_h10short__wr_box_header_1_byte_per_call() {
    short_wr_box_header(1)
}

/// udta { meta { hdlr(mdir) } }: a stream failure inside the nested meta box must surface.
#[kani::proof]
#[kani::unwind(8)]
fn t_h10rd__udta_meta() {
    let mut bytes = [0u8; 64];
    let n = {
        let mut w = crate::common::refw::RefW::new(&mut bytes[..]);
        let u = w.begin(b"udta");
        let m = w.begin(b"meta");
        w.u32(0);
        let h = w.begin_full(b"hdlr", 0, 0);
        w.zeros(4);
        w.cc(b"mdir");
        w.zeros(12);
        w.u8(0);
        w.end(h);
        w.end(m);
        w.end(u);
        w.p as u64
    };
    let k: u32 = kani::any();
    let mut r = fail_at(&bytes[..], 8, k);
    match UdtaBox::read_box(&mut r, n) {
        Ok(u) => {
            assert!(!r.fired, "C10 a failed stream call never results in success");
            assert!(matches!(u.meta, Some(MetaBox::Mdir { ilst: None })), "C10 fault-free result");
            kani::cover!(true, "fault-free run");
            std::mem::forget(u);
        }
        Err(Error::IoError(e)) => {
            assert!(r.fired, "C10 I/O error only when the stream failed");
            kani::cover!(true, "fault surfaced as an I/O error");
            std::mem::forget(e);
        }
        Err(e) => {
            std::mem::forget(e);
            assert!(false, "C10 a stream failure surfaces as an I/O error, nothing else");
        }
    }
}

/// write_zeros (padding of mvhd / avc1 / hev1) through a writer that accepts at most 2 bytes per
/// call with one interrupted call (symbolic index): still n zeros at n positions.
#[kani::proof]
#[kani::unwind(6)]
fn q_h10short__write_zeros_2_bytes_per_call() {
    let mut out = [0xAAu8; 6];
    {
        let mut w = chunked_w(&mut out[..], 2, kani::any());
        match write_zeros(&mut w, 3) {
            Ok(()) => assert!(w.inner.position() == 3, "C10 short writes: all padding bytes are written"),
            Err(e) => {
                std::mem::forget(e);
                assert!(false, "C10 short and interrupted writes are not errors");
            }
        }
    }
    let i: usize = kani::any();
    kani::assume(i < 6);
    assert!(out[i] == if i < 3 { 0 } else { 0xAA }, "C10 short writes produce exactly the same bytes");
    kani::cover!(true, "compared");
}

/// write_zeros through a writer whose k-th call fails (error or zero-length write).
#[kani::proof]
#[kani::unwind(6)]
fn q_h10wr__write_zeros_failing() {
    let mut out2 = [0u8; 6];
    let k: u32 = kani::any();
    let fault = if kani::any() { Fault::Error } else { Fault::ZeroWrite };
    let mut w = fail_w(&mut out2[..], k, fault);
    match write_zeros(&mut w, 3) {
        Ok(()) => assert!(!w.fired, "C10 a failed stream call never results in success"),
        Err(Error::IoError(e)) => {
            assert!(w.fired, "C10 I/O error only when the stream failed");
            std::mem::forget(e);
        }
        Err(e) => {
            std::mem::forget(e);
            assert!(false, "C10 a stream failure surfaces as an I/O error");
        }
    }
    kani::cover!(w.fired, "fault fired");
    kani::cover!(!w.fired, "no fault");
}
