//! Trivial harness: used by bin/check to build /repo and all dependencies once per run.
#[kani::proof]
fn q_warmup__noop() {
    let x: u8 = kani::any();
    assert!(x as u16 <= 255);
    kani::cover!(true);
}
