//! C09 — sample lookup in fragmented files follows the movie-fragment semantics (14496-12 8.8).
//! The real `Mp4Track` lookup code runs on trafs built directly (attaching trafs and moof offsets
//! to tracks is reader glue, outside), one harness per traf/trun *shape*; every value symbolic.
use mp4::verif_hooks::*;
use mp4::*;
use std::io::Cursor;

/// shape bits
pub const BASE: u8 = 1; // tfhd carries base_data_offset
pub const TFHD_DUR: u8 = 2; // tfhd carries default_sample_duration
pub const TRUN_DUR: u8 = 4; // trun carries per-sample durations
pub const TRUN_CTS: u8 = 8; // trun carries per-sample composition offsets
pub const DATA_OFF: u8 = 16; // trun carries data_offset

pub struct Frag<const N: usize> {
    pub base: u64,
    pub moof: u64,
    pub data_off: i32,
    pub tfhd_dur: u32,
    pub decode: u64,
    pub size: [u32; N],
    pub dur: [u32; N],
    pub cts: [u32; N],
}

fn any_frag<const N: usize>() -> Frag<N> {
    let f = Frag::<N> { base: kani::any(), moof: kani::any(), data_off: kani::any(), tfhd_dur: kani::any(), decode: kani::any(), size: kani::any(), dur: kani::any(), cts: kani::any() };
    // a consistent file: offsets inside the file (far below 2^62), decode times below 2^62
    kani::assume(f.base < (1 << 62) && f.moof < (1 << 62) && f.decode < (1 << 62));
    // the run's data starts inside the file: base + data_offset is not negative
    kani::assume(f.base as i128 + f.data_off as i128 >= 0 && f.moof as i128 + f.data_off as i128 >= 0);
    f
}

fn traf_of<const N: usize>(f: &Frag<N>, shape: u8) -> TrafBox {
    let mut tfhd = TfhdBox::default();
    tfhd.track_id = 1;
    if shape & BASE != 0 {
        tfhd.base_data_offset = Some(f.base);
        tfhd.flags |= 0x01;
        // default-base-is-moof may be set as well: an explicit base data offset takes precedence
        if kani::any() {
            tfhd.flags |= 0x020000;
        }
    } else {
        tfhd.flags |= 0x020000;
    }
    if shape & TFHD_DUR != 0 {
        tfhd.default_sample_duration = Some(f.tfhd_dur);
        tfhd.flags |= 0x08;
    }
    let mut trun = TrunBox::default();
    trun.sample_count = N as u32;
    trun.flags = 0x200;
    trun.sample_sizes = f.size.to_vec();
    if shape & TRUN_DUR != 0 {
        trun.flags |= 0x100;
        trun.sample_durations = f.dur.to_vec();
    }
    if shape & TRUN_CTS != 0 {
        trun.flags |= 0x800;
        trun.sample_cts = f.cts.to_vec();
    }
    if shape & DATA_OFF != 0 {
        trun.flags |= 0x001;
        trun.data_offset = Some(f.data_off);
    }
    let tfdt = TfdtBox { version: 1, flags: 0, base_media_decode_time: f.decode };
    TrafBox { tfhd, tfdt: Some(tfdt), trun: Some(trun) }
}

/// expected values of sample `i` of the run, per 8.8.7/8.8.8/8.8.12
fn expect<const N: usize>(f: &Frag<N>, shape: u8, i: usize, trex_dur: u32) -> (Option<u64>, u64, u32, i32) {
    let mut off: i128 = if shape & BASE != 0 { f.base as i128 } else { f.moof as i128 };
    if shape & DATA_OFF != 0 {
        off += f.data_off as i128;
    }
    let mut start: u64 = f.decode;
    let mut j = 0;
    while j < N {
        if j < i {
            off += f.size[j] as i128;
            start += if shape & TRUN_DUR != 0 {
                f.dur[j] as u64
            } else if shape & TFHD_DUR != 0 {
                f.tfhd_dur as u64
            } else {
                trex_dur as u64
            };
        }
        j += 1;
    }
    let dur = if shape & TRUN_DUR != 0 {
        f.dur[i]
    } else if shape & TFHD_DUR != 0 {
        f.tfhd_dur
    } else {
        trex_dur
    };
    let cts = if shape & TRUN_CTS != 0 { f.cts[i] as i32 } else { 0 };
    (if off >= 0 { Some(off as u64) } else { None }, start, dur, cts)
}

/// Two fragments of N1 and N2 samples with shapes s1, s2.
pub fn h09<const N1: usize, const N2: usize>(s1: u8, s2: u8) {
    let f1 = any_frag::<N1>();
    let f2 = any_frag::<N2>();
    let trex_dur: u32 = kani::any();
    // durations small enough for the sums of the reference to stay in range (values up to 2^31)
    let mut trak = TrakBox::default();
    trak.tkhd.track_id = 1;
    let mut track = Mp4Track { trak, trafs: Vec::new(), moof_offsets: Vec::new(), default_sample_duration: trex_dur };
    track.trafs.push(traf_of::<N1>(&f1, s1));
    track.moof_offsets.push(f1.moof);
    if N2 > 0 {
        track.trafs.push(traf_of::<N2>(&f2, s2));
        track.moof_offsets.push(f2.moof);
    }
    assert!(track.sample_count() == (N1 + N2) as u32, "C09 sample count is the sum of the run counts");
    let k: u32 = kani::any();
    kani::assume(k >= 1 && k <= (N1 + N2) as u32 + 1);
    if k as usize <= N1 + N2 {
        let (want_off, want_start, want_dur, want_cts) = if (k as usize) <= N1 {
            expect::<N1>(&f1, s1, k as usize - 1, trex_dur)
        } else {
            expect::<N2>(&f2, s2, k as usize - 1 - N1, trex_dur)
        };
        match track.sample_offset(k) {
            Ok(o) => assert!(Some(o) == want_off, "C09 offset = base (explicit, else moof) + data offset + earlier sizes in the run"),
            Err(e) => {
                std::mem::forget(e);
                assert!(want_off.is_none(), "C09 offset of an existing sample is found");
            }
        }
        match track.verif_sample_size(k) {
            Ok(s) => {
                let w = if (k as usize) <= N1 { f1.size[k as usize - 1] } else { f2.size[k as usize - 1 - N1] };
                assert!(s == w, "C09 sample size from the run");
            }
            Err(e) => {
                std::mem::forget(e);
                assert!(false, "C09 size of an existing sample is found");
            }
        }
        match track.verif_sample_time(k) {
            Ok((start, dur)) => {
                assert!(dur == want_dur, "C09 duration: per-sample, else fragment default, else movie default");
                assert!(start == want_start, "C09 start = fragment base decode time + earlier durations in the run");
            }
            Err(e) => {
                std::mem::forget(e);
                assert!(false, "C09 time of an existing sample is found");
            }
        }
        assert!(track.verif_sample_rendering_offset(k) == want_cts, "C09 per-sample composition offset");
        kani::cover!(k as usize > N1, "(opt) a sample of the second fragment");
        kani::cover!(k >= 2, "(opt) a sample that is not first");
    } else {
        match track.sample_offset(k) {
            Ok(_) => assert!(false, "C09 ids past the end have no offset"),
            Err(e) => std::mem::forget(e),
        }
    }
    kani::cover!(true, "lookup returned");
    std::mem::forget(track);
}

macro_rules! frag {
    ($name:ident, $n1:expr, $n2:expr, $s1:expr, $s2:expr) => {
        #[kani::proof]
        #[kani::unwind(4)]
        fn $name() {
            h09::<$n1, $n2>($s1, $s2)
        }
    };
}
// one fragment
frag!(q_h09frag__n2_moofbase_trundur_cts_dataoff, 2, 0, TRUN_DUR | TRUN_CTS | DATA_OFF, 0);
frag!(q_h09frag__n2_explicitbase_tfhddur, 2, 0, BASE | TFHD_DUR, 0);
frag!(t_h09frag__n2_moofbase_trexdur, 2, 0, 0, 0);
frag!(t_h09frag__n1_explicitbase_dataoff, 1, 0, BASE | DATA_OFF, 0);
// two fragments
frag!(q_h09frag__n2n2_trundur_both, 2, 2, TRUN_DUR | DATA_OFF, TRUN_DUR | DATA_OFF | TRUN_CTS);
frag!(q_h09frag__n1n2_tfhddur_then_trexdur, 1, 2, TFHD_DUR, DATA_OFF);
frag!(t_h09frag__n2n1_explicitbase_then_moofbase, 2, 1, BASE | TRUN_DUR, TRUN_DUR);
frag!(t_h09frag__n2n2_trexdur_both, 2, 2, DATA_OFF, DATA_OFF);
frag!(t_h09frag__n2n2_tfhddur_both_cts, 2, 2, TFHD_DUR | TRUN_CTS, TFHD_DUR | TRUN_CTS | BASE);
frag!(t_h09frag__n1n1_all, 1, 1, BASE | TFHD_DUR | TRUN_DUR | TRUN_CTS | DATA_OFF, BASE | TFHD_DUR | TRUN_DUR | TRUN_CTS | DATA_OFF);
frag!(t_h09frag__n2n2_mixed, 2, 2, BASE | TRUN_DUR | TRUN_CTS, TFHD_DUR | DATA_OFF);
