//! C15 — reads are history-independent; muxing and parsing are deterministic. Relational
//! (two-run) harnesses. All lookups take `&self` and the types have no interior mutability
//! (bin/check records a syntactic scan of src/track.rs, src/reader.rs), so the stream position is
//! the only channel through which history could matter.
use crate::c01::*;
use crate::common::boxes::*;
use crate::common::model::*;
use mp4::verif_hooks::*;
use mp4::*;
use std::io::{Cursor, Seek, SeekFrom};

fn small_track(off: u32) -> Mp4Track {
    let mut stbl = StblBox::default();
    stbl.stsc = stsc_from(&[Run { first_chunk: 1, spc: 2, first_sample: 1 }]);
    stbl.stsz.sample_count = 2;
    stbl.stsz.sample_sizes.push(1);
    stbl.stsz.sample_sizes.push(2);
    let mut co = StcoBox::default();
    co.entries.push(off);
    stbl.stco = Some(co);
    stbl.stts.entries.push(SttsEntry { sample_count: 2, sample_delta: kani::any() });
    track_from(stbl)
}

/// read_sample(k) from a fresh cursor vs from a cursor that was left at an arbitrary position by an
/// arbitrary earlier call (which may have failed): identical results.
#[kani::proof]
#[kani::unwind(6)]
fn q_h15pos__read_after_any_history() {
    let off: u32 = kani::any();
    kani::assume(off <= 12);
    let track = small_track(off);
    let data: [u8; 16] = kani::any();
    let k: u32 = kani::any();
    kani::assume(k <= 3);
    let mut fresh = Cursor::new(&data[..]);
    let a = track.verif_read_sample(&mut fresh, k);
    // history: seek anywhere, then another read (any id, may fail), then the same read
    let mut used = Cursor::new(&data[..]);
    let p: u64 = kani::any();
    let _ = used.seek(SeekFrom::Start(p));
    let k0: u32 = kani::any();
    kani::assume(k0 <= 3);
    match track.verif_read_sample(&mut used, k0) {
        Ok(x) => std::mem::forget(x),
        Err(e) => std::mem::forget(e),
    }
    let b = track.verif_read_sample(&mut used, k);
    match (a, b) {
        (Ok(Some(x)), Ok(Some(y))) => {
            assert!(x.bytes.len() == y.bytes.len() && x.start_time == y.start_time && x.duration == y.duration && x.is_sync == y.is_sync && x.rendering_offset == y.rendering_offset, "C15 same sample regardless of earlier calls");
            let i: usize = kani::any();
            kani::assume(i < x.bytes.len() && i < y.bytes.len());
            assert!(x.bytes[i] == y.bytes[i], "C15 same bytes regardless of earlier calls");
            kani::cover!(k0 != k && k0 >= 1, "(opt) a different sample was read in between");
            std::mem::forget(x);
            std::mem::forget(y);
        }
        (Ok(None), Ok(None)) => {}
        (Err(e1), Err(e2)) => {
            std::mem::forget(e1);
            std::mem::forget(e2);
        }
        (x, y) => {
            std::mem::forget(x);
            std::mem::forget(y);
            assert!(false, "C15 the outcome of a read does not depend on earlier calls");
        }
    }
    assert!(track.sample_offset(k).ok() == track.sample_offset(k).ok(), "C15 repeated offset queries agree");
    kani::cover!(true, "compared");
    std::mem::forget(track);
}

/// Muxing the same history twice gives the same tables and the same bytes.
#[kani::proof]
#[kani::unwind(5)]
fn q_h15mux__same_history_twice() {
    // timescales concrete (the 128-bit duration division on symbolic timescales, twice, does not
    // finish in the quick cap); everything a sample carries is symbolic
    let ts: u32 = 1000;
    let b: [u8; 2] = kani::any();
    let dur: u32 = kani::any();
    kani::assume(dur < DUR_LIMIT);
    let cts: i32 = kani::any();
    let sync: bool = kani::any();
    let mts: u32 = 90000;
    let run = |out: &mut [u8; 8]| -> Option<TrakBox> {
        let cfg = track_config(Kind::Ttxt, ts);
        let mut tw = match VerifTrackWriter::new(1, &cfg) {
            Ok(t) => t,
            Err(e) => {
                std::mem::forget(e);
                return None;
            }
        };
        std::mem::forget(cfg);
        let mut cur = Cursor::new(&mut out[..]);
        let s = Mp4Sample { start_time: 0, duration: dur, rendering_offset: cts, is_sync: sync, bytes: Bytes::copy_from_slice(&b) };
        match tw.write_sample(&mut cur, &s, mts) {
            Ok(_) => {}
            Err(e) => std::mem::forget(e),
        }
        std::mem::forget(s);
        match tw.write_chunk(&mut cur) {
            Ok(()) => {}
            Err(e) => std::mem::forget(e),
        }
        Some(tw.into_trak())
    };
    let mut o1 = [0u8; 8];
    let mut o2 = [0u8; 8];
    match (run(&mut o1), run(&mut o2)) {
        (Some(t1), Some(t2)) => {
            let (a, b2) = (&t1.mdia.minf.stbl, &t2.mdia.minf.stbl);
            assert!(a.stsz.sample_count == b2.stsz.sample_count && a.stsz.sample_size == b2.stsz.sample_size, "C15 deterministic size table");
            assert!(a.stts.entries.len() == b2.stts.entries.len() && a.stsc.entries.len() == b2.stsc.entries.len(), "C15 deterministic tables");
            assert!(a.ctts.is_some() == b2.ctts.is_some() && a.stss.is_some() == b2.stss.is_some(), "C15 deterministic optional tables");
            assert!(t1.tkhd.duration == t2.tkhd.duration && t1.mdia.mdhd.duration == t2.mdia.mdhd.duration, "C15 deterministic durations");
            let i: usize = kani::any();
            kani::assume(i < 8);
            assert!(o1[i] == o2[i], "C15 muxing the same history twice is byte-identical");
            kani::cover!(true, "compared");
            std::mem::forget(t1);
            std::mem::forget(t2);
        }
        _ => assert!(false, "C15 both runs accept the configuration"),
    }
}

/// Zero-track file written twice: byte-identical.
#[kani::proof]
#[kani::unwind(27)]
fn q_h15mux__file_twice() {
    let major: [u8; 4] = kani::any();
    let minor: u32 = kani::any();
    let ts: u32 = kani::any();
    let run = |out: &mut [u8; 176]| -> u64 {
        let cfg = Mp4Config { major_brand: FourCC::from(major), minor_version: minor, compatible_brands: Vec::new(), timescale: ts };
        let mut end = 0;
        match Mp4Writer::write_start(Cursor::new(&mut out[..]), &cfg) {
            Ok(mut w) => {
                match w.write_end() {
                    Ok(()) => {}
                    Err(e) => std::mem::forget(e),
                }
                end = w.verif_writer().position();
                std::mem::forget(w);
            }
            Err(e) => std::mem::forget(e),
        }
        std::mem::forget(cfg);
        end
    };
    let mut o1 = [0u8; 176];
    let mut o2 = [0u8; 176];
    let e1 = run(&mut o1);
    let e2 = run(&mut o2);
    assert!(e1 == e2, "C15 same length");
    let i: usize = kani::any();
    kani::assume(i < 176);
    assert!(o1[i] == o2[i], "C15 muxing the same configuration twice is byte-identical");
    kani::cover!(e1 > 100, "a file was produced");
}

/// Opening the same bytes twice yields equal structures (unit level: table and header decoders).
macro_rules! parse_twice {
    ($name:ident, $unwind:expr, $ty:ty, $nb:expr) => {
        #[kani::proof]
        #[kani::unwind($unwind)]
        fn $name() {
            let buf: [u8; $nb] = kani::any();
            let size: u64 = kani::any();
            kani::assume(size <= $nb);
            let mut r1 = Cursor::new(&buf[..]);
            r1.set_position(8);
            let mut r2 = Cursor::new(&buf[..]);
            r2.set_position(8);
            match (<$ty>::read_box(&mut r1, size), <$ty>::read_box(&mut r2, size)) {
                (Ok(a), Ok(b)) => {
                    assert!(a == b, "C15 decoding the same bytes twice yields equal structures");
                    assert!(r1.position() == r2.position());
                    kani::cover!(true, "(opt) accepted twice");
                    std::mem::forget(a);
                    std::mem::forget(b);
                }
                (Err(a), Err(b)) => {
                    std::mem::forget(a);
                    std::mem::forget(b);
                }
                (a, b) => {
                    std::mem::forget(a);
                    std::mem::forget(b);
                    assert!(false, "C15 decoding is deterministic");
                }
            }
            kani::cover!(true, "compared");
        }
    };
}
parse_twice!(q_h15parse__stts_40b, 19, SttsBox, 40);
parse_twice!(x_h15parse__stsc_48b, 8, StscBox, 48); // StscBox on arbitrary bytes exhausts 16 GB (see shapes/c06.py)
parse_twice!(q_h15parse__ctts_40b, 8, CttsBox, 40);
parse_twice!(q_h15parse__tfhd_48b, 5, TfhdBox, 48);
parse_twice!(t_h15parse__trun_48b, 19, TrunBox, 48);
parse_twice!(t_h15parse__tkhd_112b, 5, TkhdBox, 112);
