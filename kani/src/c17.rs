//! C17 — the muxer API is total: bad arguments are errors, never panics. Kani's implicit panic /
//! overflow / index / unwrap / division checks on the writer units with *no* domain restriction.
use crate::c01::*;
use crate::common::wr::Sparse;
use mp4::verif_hooks::*;
use mp4::*;
use std::convert::TryFrom;
use std::io::Cursor;

fn any_lang_bytes<const L: usize>(two_byte: bool) -> String {
    let b: [u8; L] = kani::any();
    let mut i = 0;
    while i < L {
        if two_byte && L >= 2 && i < 2 {
            kani::assume(b[i] == if i == 0 { 0xC3 } else { 0xA9 });
        } else {
            kani::assume(b[i] < 0x80);
        }
        i += 1;
    }
    unsafe { String::from_utf8_unchecked(b.to_vec()) }
}

/// Mp4TrackWriter::new for every AVC configuration: parameter sets of S / P bytes, language of L
/// bytes (ASCII, or starting with a two-byte character), any timescale, any dimensions.
fn h17_new_avc<const S: usize, const P: usize, const L: usize>(two_byte: bool) {
    let sps: [u8; S] = kani::any();
    let pps: [u8; P] = kani::any();
    let cfg = TrackConfig {
        track_type: TrackType::Video,
        timescale: kani::any(),
        language: any_lang_bytes::<L>(two_byte),
        media_conf: MediaConfig::AvcConfig(AvcConfig { width: kani::any(), height: kani::any(), seq_param_set: sps.to_vec(), pic_param_set: pps.to_vec() }),
    };
    match VerifTrackWriter::new(kani::any(), &cfg) {
        Ok(t) => {
            kani::cover!(true, "(opt) accepted");
            std::mem::forget(t);
        }
        Err(e) => {
            kani::cover!(true, "(opt) rejected");
            std::mem::forget(e);
        }
    }
    kani::cover!(true, "returned");
    std::mem::forget(cfg);
}

#[kani::proof]
#[kani::unwind(8)]
fn q_h17new__avc_sps0_pps0_lang0() {
    h17_new_avc::<0, 0, 0>(false)
}
#[kani::proof]
#[kani::unwind(8)]
fn q_h17new__avc_sps3_pps1_lang3() {
    h17_new_avc::<3, 1, 3>(false)
}
#[kani::proof]
#[kani::unwind(8)]
fn q_h17new__avc_sps1_pps0_lang4_nonascii() {
    h17_new_avc::<1, 0, 4>(true)
}
#[kani::proof]
#[kani::unwind(8)]
fn q_h17new__avc_sps4_pps2_lang2() {
    h17_new_avc::<4, 2, 2>(false)
}
#[kani::proof]
#[kani::unwind(8)]
fn t_h17new__avc_sps2_pps5_lang1() {
    h17_new_avc::<2, 5, 1>(false)
}
#[kani::proof]
#[kani::unwind(8)]
fn t_h17new__avc_sps5_pps3_lang3_nonascii() {
    h17_new_avc::<5, 3, 3>(true)
}

#[kani::proof]
#[kani::unwind(6)]
fn q_h17new__other_kinds_any_values() {
    let k: u8 = kani::any();
    kani::assume(k < 4);
    let kind = match k {
        0 => Kind::Hevc,
        1 => Kind::Vp9,
        2 => Kind::Aac,
        _ => Kind::Ttxt,
    };
    let cfg = track_config(kind, kani::any());
    match VerifTrackWriter::new(kani::any(), &cfg) {
        Ok(t) => std::mem::forget(t),
        Err(e) => std::mem::forget(e),
    }
    kani::cover!(true, "returned");
    std::mem::forget(cfg);
}

/// K write_sample calls from the initial state with the full value range of every sample field and
/// of both timescales (0 included), then the flush write_end starts with.
fn h17_ws<const K: usize>(len: usize) {
    let cfg = track_config(Kind::Ttxt, kani::any());
    let mut tw = match VerifTrackWriter::new(1, &cfg) {
        Ok(t) => t,
        Err(e) => {
            std::mem::forget(e);
            std::mem::forget(cfg);
            return;
        }
    };
    std::mem::forget(cfg);
    let movie_ts: u32 = kani::any();
    let start: u64 = kani::any();
    kani::assume(start < (1 << 62));
    let mut s = Sparse::new(start);
    let b: [u8; 2] = kani::any();
    let mut i = 0;
    while i < K {
        let smp = Mp4Sample { start_time: kani::any(), duration: kani::any(), rendering_offset: kani::any(), is_sync: kani::any(), bytes: Bytes::copy_from_slice(&b[..len]) };
        match tw.write_sample(&mut s, &smp, movie_ts) {
            Ok(_) => {}
            Err(e) => std::mem::forget(e),
        }
        std::mem::forget(smp);
        i += 1;
    }
    match tw.write_chunk(&mut s) {
        Ok(()) => {}
        Err(e) => std::mem::forget(e),
    }
    kani::cover!(true, "returned");
    std::mem::forget(tw);
}

#[kani::proof]
#[kani::unwind(6)]
fn q_h17ws__k1_len1() {
    h17_ws::<1>(1)
}
#[kani::proof]
#[kani::unwind(6)]
fn t_h17ws__k2_len1() {
    h17_ws::<2>(1)
}
#[kani::proof]
#[kani::unwind(6)]
fn t_h17ws__k2_len0() {
    h17_ws::<2>(0)
}
#[kani::proof]
#[kani::unwind(6)]
fn t_h17ws__k3_len1() {
    h17_ws::<3>(1)
}

/// write_end of an AAC track whose largest sample has any 32-bit size (the size enters through the
/// state hook: the tables of a track that saw one sample of `size` bytes), followed by the
/// encoding of the sample entry that write_end updates (esds buffer size).
#[kani::proof]
#[kani::unwind(6)]
fn t_h17end__aac_any_max_sample_size() {
    let cfg = track_config(Kind::Aac, 1000);
    let tw0 = match VerifTrackWriter::new(1, &cfg) {
        Ok(t) => t,
        Err(e) => {
            std::mem::forget(e);
            return;
        }
    };
    std::mem::forget(cfg);
    let mut st = tw0.state();
    let mut trak = tw0.into_trak();
    let size: u32 = kani::any();
    kani::assume(size > 0);
    // the state after one sample of `size` bytes that was flushed to a chunk at offset 0
    trak.mdia.minf.stbl.stsz.sample_size = size;
    trak.mdia.minf.stbl.stsz.sample_count = 1;
    trak.mdia.minf.stbl.stts.entries.push(SttsEntry { sample_count: 1, sample_delta: 1000 });
    trak.mdia.minf.stbl.stsc.entries.push(StscEntry { first_chunk: 1, samples_per_chunk: 1, sample_description_index: 1, first_sample: 1 });
    trak.mdia.minf.stbl.co64.as_mut().unwrap().entries.push(0);
    st.sample_id = 2;
    st.fixed_sample_size = size;
    st.is_fixed_sample_size = true;
    let mut tw = VerifTrackWriter::from_parts(trak, st, &[]);
    let mut s = Sparse::new(0);
    match tw.write_end(&mut s) {
        Ok(trak) => {
            // what Mp4Writer::write_end does next with this trak: encode it (here: the part that
            // write_end touched)
            if let Some(ref mp4a) = trak.mdia.minf.stbl.stsd.mp4a {
                let mut buf = [0u8; 96];
                let mut w = Cursor::new(&mut buf[..]);
                match mp4a.write_box(&mut w) {
                    Ok(_) => {}
                    Err(e) => std::mem::forget(e),
                }
            }
            std::mem::forget(trak);
        }
        Err(e) => std::mem::forget(e),
    }
    kani::cover!(true, "returned");
    std::mem::forget(tw);
}

/// Mp4Writer: any track id with 0..2 tracks, any sample values; and write_end with no tracks.
fn h17_mw<const NT: usize>() {
    let cfg = Mp4Config { major_brand: FourCC::from(kani::any::<[u8; 4]>()), minor_version: kani::any(), compatible_brands: Vec::new(), timescale: kani::any() };
    let mut w = match Mp4Writer::write_start(Sparse::new(0), &cfg) {
        Ok(w) => w,
        Err(e) => {
            std::mem::forget(e);
            return;
        }
    };
    std::mem::forget(cfg);
    let mut t = 0;
    while t < NT {
        let tc = track_config(Kind::Ttxt, kani::any());
        match w.add_track(&tc) {
            Ok(()) => {}
            Err(e) => std::mem::forget(e),
        }
        std::mem::forget(tc);
        t += 1;
    }
    let b: [u8; 1] = kani::any();
    let smp = Mp4Sample { start_time: kani::any(), duration: kani::any(), rendering_offset: kani::any(), is_sync: kani::any(), bytes: Bytes::copy_from_slice(&b) };
    match w.write_sample(kani::any(), &smp) {
        Ok(()) => {}
        Err(e) => std::mem::forget(e),
    }
    std::mem::forget(smp);
    if NT == 0 {
        match w.write_end() {
            Ok(()) => {}
            Err(e) => std::mem::forget(e),
        }
    }
    kani::cover!(true, "returned");
    std::mem::forget(w);
}
#[kani::proof]
#[kani::unwind(26)]
fn q_h17mw__tracks0_write_end() {
    h17_mw::<0>()
}
#[kani::proof]
#[kani::unwind(6)]
fn x_h17mw__tracks1() {
    h17_mw::<1>()
}
#[kani::proof]
#[kani::unwind(6)]
fn x_h17mw__tracks2() {
    h17_mw::<2>()
}
