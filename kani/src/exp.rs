use crate::common::refw::RefW;
use mp4::verif_hooks::*;
use mp4::*;
use std::io::Cursor;
#[kani::proof]
#[kani::unwind(6)]
fn q_exp__desc_const() {
    let mut exp = [0u8; 47];
    let x: u8 = kani::any();
    {
        let mut w = RefW::new(&mut exp);
        w.u8(x);
        w.u8(0x03);
        w.u8(25);
        w.u16(7);
    }
    let mut r = Cursor::new(&exp[..]);
    r.set_position(1);
    match verif_read_desc(&mut r) {
        Ok((tag, size)) => {
            assert!(tag == 3 && size == 25);
            kani::cover!(true);
        }
        Err(e) => { std::mem::forget(e); assert!(false); }
    }
}
