//! C07 — parsing terminates with linear work. Decoder wrappers: gen/c07.rs (operation counting
//! reader + unwinding assertions as the loop bound); container loops and lookups below.
use crate::common::boxes::*;
use crate::common::model::*;
use crate::common::rd::*;
use mp4::verif_hooks::*;
use mp4::*;
use std::io::Cursor;

/// Container loops on a small arbitrary buffer: the loop may run at most once per 8 bytes of the
/// container (`unwind` = NB/8 + 3); a child whose declared size does not advance the cursor makes
/// the unwinding assertion fail and the counterexample is the input.
macro_rules! cont {
    ($name:ident, $ty:ty, $nb:expr, $unwind:expr) => {
        #[kani::proof]
        #[kani::unwind($unwind)]
        fn $name() {
            crate::dec_any!($ty, $nb, any_size($nb), counting, |r: &Counting, _s: u64| {
                assert!(r.ops <= 4 * $nb + 16, "C07 stream operations are bounded linearly in the input length");
            });
        }
    };
}
cont!(q_h07cont__mvex_16b, MvexBox, 16, 5);
cont!(t_h07cont__mvex_24b, MvexBox, 24, 6);
cont!(q_h07cont__edts_24b, EdtsBox, 24, 6); // no loop in edts: one child, passes
cont!(t_h07cont__mvex_32b, MvexBox, 32, 7);
cont!(x_h07cont__udta_24b, UdtaBox, 24, 6); // does not finish: the meta child decoder runs inside
cont!(x_h07cont__dinf_24b, DinfBox, 24, 6); // does not finish: dref/url run inside
cont!(x_h07cont__traf_32b, TrafBox, 32, 7);

/// Lookups: the intra-chunk loop of sample_offset must be bounded by the table sizes, not by field
/// values. One run, constant sample size, S chunk offsets; samples_per_chunk and k symbolic.
#[kani::proof]
#[kani::unwind(6)]
fn q_h07look__offset_constant_size_any_spc() {
    let mut stbl = StblBox::default();
    let spc: u32 = kani::any();
    kani::assume(spc >= 1);
    stbl.stsc = stsc_from(&[Run { first_chunk: 1, spc, first_sample: 1 }]);
    stbl.stsz.sample_size = kani::any();
    kani::assume(stbl.stsz.sample_size > 0);
    stbl.stsz.sample_count = kani::any();
    let mut co = StcoBox::default();
    co.entries.push(kani::any());
    co.entries.push(kani::any());
    stbl.stco = Some(co);
    let track = track_from(stbl);
    let k: u32 = kani::any();
    match track.sample_offset(k) {
        Ok(_) => {}
        Err(e) => std::mem::forget(e),
    }
    kani::cover!(true, "returned");
    std::mem::forget(track);
}
