//! C14 — track and movie configuration survives mux -> demux.
use crate::c01::*;
use crate::common::boxes::*;
use crate::common::{be32, cc};
use mp4::verif_hooks::*;
use mp4::*;
use std::convert::TryFrom;
use std::io::Cursor;

fn any_lang() -> String {
    let l: [u8; 3] = kani::any();
    kani::assume(l[0] >= b'a' && l[0] <= b'z' && l[1] >= b'a' && l[1] <= b'z' && l[2] >= b'a' && l[2] <= b'z');
    unsafe { String::from_utf8_unchecked(l.to_vec()) }
}

fn lang_eq(a: &str, b: &[u8; 3]) -> bool {
    let x = a.as_bytes();
    x.len() == 3 && x[0] == b[0] && x[1] == b[1] && x[2] == b[2]
}

/// Video kinds: configured kind, codec, dimensions, language, timescale, parameter sets and
/// profile/level bytes come back through the real accessors of the track the writer builds.
fn h14_video(kind: Kind) {
    let ts: u32 = kani::any();
    kani::assume(ts >= 1);
    let lang: [u8; 3] = kani::any();
    kani::assume(lang[0] >= b'a' && lang[0] <= b'z' && lang[1] >= b'a' && lang[1] <= b'z' && lang[2] >= b'a' && lang[2] <= b'z');
    let w: u16 = kani::any();
    let h: u16 = kani::any();
    let sps: [u8; 5] = kani::any();
    let pps: [u8; 2] = kani::any();
    let media_conf = match kind {
        Kind::Avc => MediaConfig::AvcConfig(AvcConfig { width: w, height: h, seq_param_set: sps.to_vec(), pic_param_set: pps.to_vec() }),
        Kind::Hevc => MediaConfig::HevcConfig(HevcConfig { width: w, height: h }),
        _ => MediaConfig::Vp9Config(Vp9Config { width: w, height: h }),
    };
    let cfg = TrackConfig { track_type: TrackType::Video, timescale: ts, language: unsafe { String::from_utf8_unchecked(lang.to_vec()) }, media_conf };
    let tw = match VerifTrackWriter::new(7, &cfg) {
        Ok(t) => t,
        Err(e) => {
            std::mem::forget(e);
            assert!(false, "C14 a configuration in the documented domain is accepted");
            return;
        }
    };
    std::mem::forget(cfg);
    let track = Mp4Track { trak: tw.into_trak(), trafs: Vec::new(), moof_offsets: Vec::new(), default_sample_duration: 0 };
    assert!(track.track_id() == 7);
    assert!(matches!(track.track_type(), Ok(TrackType::Video)), "C14 configured kind");
    assert!(track.timescale() == ts, "C14 timescale");
    assert!(lang_eq(track.language(), &lang), "C14 language");
    assert!(track.width() == w && track.height() == h, "C14 width and height");
    let want_media = match kind {
        Kind::Avc => MediaType::H264,
        Kind::Hevc => MediaType::H265,
        _ => MediaType::VP9,
    };
    assert!(matches!(track.media_type(), Ok(m) if m == want_media), "C14 codec");
    if kind == Kind::Avc {
        match track.sequence_parameter_set() {
            Ok(s) => assert!(s.len() == 5 && s[0] == sps[0] && s[1] == sps[1] && s[2] == sps[2] && s[3] == sps[3] && s[4] == sps[4], "C14 SPS bytes"),
            Err(e) => {
                std::mem::forget(e);
                assert!(false, "C14 SPS present");
            }
        }
        match track.picture_parameter_set() {
            Ok(s) => assert!(s.len() == 2 && s[0] == pps[0] && s[1] == pps[1], "C14 PPS bytes"),
            Err(e) => {
                std::mem::forget(e);
                assert!(false, "C14 PPS present");
            }
        }
        let avcc = &track.trak.mdia.minf.stbl.stsd.avc1.as_ref().unwrap().avcc;
        assert!(avcc.avc_profile_indication == sps[1] && avcc.profile_compatibility == sps[2] && avcc.avc_level_indication == sps[3], "C14 profile / compatibility / level bytes are those of the SPS");
        match (track.video_profile(), AvcProfile::try_from((sps[1], sps[2]))) {
            (Ok(a), Ok(b)) => assert!(a == b, "C14 video profile"),
            (Err(a), Err(b)) => {
                std::mem::forget(a);
                std::mem::forget(b);
            }
            (a, b) => {
                std::mem::forget(a);
                std::mem::forget(b);
                assert!(false, "C14 video profile agrees with the SPS");
            }
        }
    }
    kani::cover!(true, "accessors agree");
    std::mem::forget(track);
}

#[kani::proof]
#[kani::unwind(8)]
fn q_h14trk__avc() {
    h14_video(Kind::Avc)
}
#[kani::proof]
#[kani::unwind(8)]
fn q_h14trk__hevc() {
    h14_video(Kind::Hevc)
}
#[kani::proof]
#[kani::unwind(8)]
fn q_h14trk__vp9() {
    h14_video(Kind::Vp9)
}

fn any_aac() -> (AacConfig, u8, u8, u8) {
    let p: u8 = kani::any();
    let f: u8 = kani::any();
    let c: u8 = kani::any();
    let profile = match AudioObjectType::try_from(p) {
        Ok(v) => v,
        Err(e) => {
            std::mem::forget(e);
            kani::assume(false);
            unreachable!()
        }
    };
    let freq_index = match SampleFreqIndex::try_from(f) {
        Ok(v) => v,
        Err(e) => {
            std::mem::forget(e);
            kani::assume(false);
            unreachable!()
        }
    };
    let chan_conf = match ChannelConfig::try_from(c) {
        Ok(v) => v,
        Err(e) => {
            std::mem::forget(e);
            kani::assume(false);
            unreachable!()
        }
    };
    (AacConfig { bitrate: kani::any(), profile, freq_index, chan_conf }, p, f, c)
}

/// Audio / subtitle kinds through the in-memory track.
#[kani::proof]
#[kani::unwind(6)]
fn q_h14trk__aac_every_type_freq_channels() {
    let (aac, p, f, c) = any_aac();
    let bitrate = aac.bitrate;
    let ts: u32 = kani::any();
    kani::assume(ts >= 1);
    let cfg = TrackConfig { track_type: TrackType::Audio, timescale: ts, language: any_lang(), media_conf: MediaConfig::AacConfig(aac) };
    let tw = match VerifTrackWriter::new(1, &cfg) {
        Ok(t) => t,
        Err(e) => {
            std::mem::forget(e);
            assert!(false, "C14 a configuration in the documented domain is accepted");
            return;
        }
    };
    std::mem::forget(cfg);
    let track = Mp4Track { trak: tw.into_trak(), trafs: Vec::new(), moof_offsets: Vec::new(), default_sample_duration: 0 };
    assert!(matches!(track.track_type(), Ok(TrackType::Audio)), "C14 configured kind");
    assert!(matches!(track.media_type(), Ok(MediaType::AAC)), "C14 codec");
    assert!(matches!(track.audio_profile(), Ok(v) if v as u8 == p), "C14 AAC object type");
    assert!(matches!(track.sample_freq_index(), Ok(v) if v as u8 == f), "C14 sampling-frequency index");
    assert!(matches!(track.channel_config(), Ok(v) if v as u8 == c), "C14 channel configuration");
    assert!(track.bitrate() == bitrate, "C14 bitrate");
    assert!(track.timescale() == ts);
    kani::cover!(p >= 32, "(opt) extended object type");
    kani::cover!(true, "accessors agree");
    std::mem::forget(track);
}

/// (excluded, x_: decoding an esds whose AudioSpecificConfig bits are symbolic does not finish --
/// the wire leg for the audio parameters is C05's h05enc esds (all values) + h05dec esds (concrete
/// configurations))
/// ... and through the wire: the mp4a/esds the writer builds is encoded and decoded with the real
/// codecs and the accessors' fields are compared (object types whose number fits the 5-bit field).
#[kani::proof]
#[kani::unwind(7)]
fn x_h14wire__mp4a_esds_every_type_freq_channels() {
    let (aac, p, f, c) = any_aac();
    let bitrate = aac.bitrate;
    let v = Mp4aBox::new(&aac);
    let mut buf = [0u8; 96];
    let n = {
        let mut w = Cursor::new(&mut buf[..]);
        match v.write_box(&mut w) {
            Ok(n) => n,
            Err(e) => {
                std::mem::forget(e);
                assert!(false, "C14 the sample entry of an accepted configuration encodes");
                return;
            }
        }
    };
    let mut r = Cursor::new(&buf[..]);
    r.set_position(8);
    match Mp4aBox::read_box(&mut r, n) {
        Ok(back) => {
            match back.esds {
                Some(ref e) => {
                    let ds = &e.es_desc.dec_config.dec_specific;
                    assert!(ds.profile == p, "C14 AAC object type survives the wire");
                    assert!(ds.freq_index == f, "C14 sampling-frequency index survives the wire");
                    assert!(ds.chan_conf == c, "C14 channel configuration survives the wire");
                    assert!(e.es_desc.dec_config.avg_bitrate == bitrate, "C14 bitrate survives the wire");
                }
                None => assert!(false, "C14 esds present"),
            }
            kani::cover!(true, "decoded");
            std::mem::forget(back);
        }
        Err(e) => {
            std::mem::forget(e);
            assert!(false, "C14 the encoded sample entry decodes");
        }
    }
    std::mem::forget(v);
}

/// Wire leg in the encode direction: the mp4a/esds sample entry built from the configuration carries
/// object type, frequency index and channel configuration in the AudioSpecificConfig bits defined
/// by 14496-3 (5 + 4 + 4 bits), and the bitrate in the DecoderConfigDescriptor -- for every
/// configuration whose object type fits the 5-bit field (1..=30).
#[kani::proof]
#[kani::unwind(7)]
fn q_h14wire__mp4a_esds_encoded_parameters() {
    let (aac, p, f, c) = any_aac();
    kani::assume(p <= 30);
    let bitrate = aac.bitrate;
    let v = Mp4aBox::new(&aac);
    let mut buf = [0u8; 96];
    let n = {
        let mut w = Cursor::new(&mut buf[..]);
        match v.write_box(&mut w) {
            Ok(n) => n,
            Err(e) => {
                std::mem::forget(e);
                assert!(false, "C14 the sample entry of an accepted configuration encodes");
                return;
            }
        }
    };
    assert!(n == 75, "C14 mp4a + esds layout");
    // mp4a: 8 header + 28 fields; esds: 8 + 4; ES_Descriptor 2+3; DecoderConfig 2+13; DecoderSpecific 2 -> ASC
    let asc = 36 + 12 + 5 + 15 + 2;
    let bits = ((buf[asc] as u16) << 8) | buf[asc + 1] as u16;
    assert!((bits >> 11) as u8 == p, "C14 AAC object type on the wire");
    assert!(((bits >> 7) & 0xF) as u8 == f, "C14 sampling-frequency index on the wire");
    assert!(((bits >> 3) & 0xF) as u8 == c, "C14 channel configuration on the wire");
    let avg = 36 + 12 + 5 + 2 + 9;
    assert!(be32(&buf, avg) == bitrate, "C14 bitrate on the wire");
    kani::cover!(f >= 8, "(opt) a frequency index with the top bit set");
    kani::cover!(true, "encoded");
    std::mem::forget(v);
}

#[kani::proof]
#[kani::unwind(6)]
fn q_h14trk__ttxt() {
    let ts: u32 = kani::any();
    kani::assume(ts >= 1);
    let lang: [u8; 3] = kani::any();
    kani::assume(lang[0] >= b'a' && lang[0] <= b'z' && lang[1] >= b'a' && lang[1] <= b'z' && lang[2] >= b'a' && lang[2] <= b'z');
    let cfg = TrackConfig { track_type: TrackType::Subtitle, timescale: ts, language: unsafe { String::from_utf8_unchecked(lang.to_vec()) }, media_conf: MediaConfig::TtxtConfig(TtxtConfig {}) };
    let tw = match VerifTrackWriter::new(2, &cfg) {
        Ok(t) => t,
        Err(e) => {
            std::mem::forget(e);
            assert!(false, "C14 accepted");
            return;
        }
    };
    std::mem::forget(cfg);
    let track = Mp4Track { trak: tw.into_trak(), trafs: Vec::new(), moof_offsets: Vec::new(), default_sample_duration: 0 };
    assert!(matches!(track.track_type(), Ok(TrackType::Subtitle)), "C14 configured kind");
    assert!(matches!(track.media_type(), Ok(MediaType::TTXT)), "C14 codec");
    assert!(track.timescale() == ts && lang_eq(track.language(), &lang), "C14 timescale and language");
    kani::cover!(true, "accessors agree");
    std::mem::forget(track);
}

/// File level: ftyp decodes to the configured brands / version; mvhd carries the movie timescale.
fn h14_file<const B: usize>() {
    let mut out = [0u8; 192];
    let brands: [[u8; 4]; B] = kani::any();
    let mut cb = Vec::new();
    let mut i = 0;
    while i < B {
        cb.push(FourCC::from(brands[i]));
        i += 1;
    }
    let major: [u8; 4] = kani::any();
    let minor: u32 = kani::any();
    let ts: u32 = kani::any();
    let cfg = Mp4Config { major_brand: FourCC::from(major), minor_version: minor, compatible_brands: cb, timescale: ts };
    {
        let mut w = match Mp4Writer::write_start(Cursor::new(&mut out[..]), &cfg) {
            Ok(w) => w,
            Err(e) => {
                std::mem::forget(e);
                assert!(false, "C14 write_start succeeds");
                return;
            }
        };
        if let Err(e) = w.write_end() {
            std::mem::forget(e);
            assert!(false, "C14 write_end succeeds");
        }
        std::mem::forget(w);
    }
    std::mem::forget(cfg);
    let mut r = Cursor::new(&out[..]);
    match BoxHeader::read(&mut r) {
        Ok(h) => {
            assert!(h.name == BoxType::FtypBox);
            match FtypBox::read_box(&mut r, h.size) {
                Ok(f) => {
                    assert!(f.major_brand.value == major && f.minor_version == minor, "C14 major brand and minor version");
                    assert!(f.compatible_brands.len() == B, "C14 brand list length");
                    let mut i = 0;
                    while i < B {
                        assert!(f.compatible_brands[i].value == brands[i], "C14 brand list");
                        i += 1;
                    }
                    // mvhd: ftyp (16+4B) + mdat (16) -> moov header (8) -> mvhd
                    let mv = 16 + 4 * B + 16 + 8;
                    assert!(be32(&out, mv + 4) == cc(b"mvhd"));
                    let mut r2 = Cursor::new(&out[..]);
                    r2.set_position(mv as u64 + 8);
                    match MvhdBox::read_box(&mut r2, be32(&out, mv) as u64) {
                        Ok(m) => {
                            assert!(m.timescale == ts, "C14 movie timescale");
                            assert!(m.duration == 0, "C14 movie duration of an empty movie");
                            kani::cover!(true, "decoded");
                        }
                        Err(e) => {
                            std::mem::forget(e);
                            assert!(false, "C14 mvhd decodes");
                        }
                    }
                    std::mem::forget(f);
                }
                Err(e) => {
                    std::mem::forget(e);
                    assert!(false, "C14 ftyp decodes");
                }
            }
        }
        Err(e) => {
            std::mem::forget(e);
            assert!(false, "C14 header readable");
        }
    }
}

#[kani::proof]
#[kani::unwind(26)]
fn q_h14file__brands0() {
    h14_file::<0>()
}
#[kani::proof]
#[kani::unwind(26)]
fn q_h14file__brands2() {
    h14_file::<2>()
}

/// Track duration reported in the movie timescale: within one tick (same arithmetic as C02's
/// h02dur, asserted for C14).
fn h14_dur<const K: usize>(track_ts: u32, movie_ts: u32) {
    // timescales concrete per harness (see c02::h02_dur), durations symbolic < 2^20
    let cfg = track_config(Kind::Ttxt, track_ts);
    let mut tw = match VerifTrackWriter::new(1, &cfg) {
        Ok(t) => t,
        Err(e) => {
            std::mem::forget(e);
            return;
        }
    };
    std::mem::forget(cfg);
    let mut out = [0u8; 16];
    let mut cur = Cursor::new(&mut out[..]);
    let dur: [u32; K] = kani::any();
    let mut sum: u64 = 0;
    let mut i = 0;
    while i < K {
        kani::assume(dur[i] < (1 << 20));
        let s = Mp4Sample { start_time: 0, duration: dur[i], rendering_offset: 0, is_sync: true, bytes: Bytes::new() };
        if let Err(e) = tw.write_sample(&mut cur, &s, movie_ts) {
            std::mem::forget(e);
            assert!(false, "C14 write_sample succeeds");
        }
        std::mem::forget(s);
        sum += dur[i] as u64;
        i += 1;
    }
    let tk = tw.trak().tkhd.duration;
    assert!(tw.trak().mdia.mdhd.duration == sum, "C14 reported media duration equals the summed sample durations");
    let lhs = tk * track_ts as u64;
    let rhs = sum * movie_ts as u64;
    let diff = if lhs > rhs { lhs - rhs } else { rhs - lhs };
    assert!(diff <= track_ts as u64, "C14 reported track duration equals the summed durations in the movie timescale up to one tick");
    kani::cover!(true, "durations checked");
    std::mem::forget(tw);
}
#[kani::proof]
#[kani::unwind(5)]
fn q_h14dur__k2_ts48000_movie1000() {
    h14_dur::<2>(48000, 1000)
}
#[kani::proof]
#[kani::unwind(5)]
fn q_h14dur__k2_ts600_movie90000() {
    h14_dur::<2>(600, 90000)
}
#[kani::proof]
#[kani::unwind(6)]
fn t_h14dur__k3_ts24000_movie1001() {
    h14_dur::<3>(24000, 1001)
}
