//! Kani proof harnesses for alfg/mp4-rust (see /verif/DESIGN.md).
//! Harness naming: <tier>_<family>__<shape>; tier q = quick+thorough, t = thorough only,
//! x = excluded (documented as not finishing). bin/check discovers harnesses by this pattern.
#![allow(dead_code, unused_imports, unused_variables, unused_mut, unused_macros, clippy::all)]
#![cfg_attr(kani, feature(stmt_expr_attributes))]

#[cfg(kani)]
pub mod common;
#[cfg(kani)]
mod warmup;
#[cfg(kani)]
mod c10;
#[cfg(kani)]
mod c11;
#[cfg(kani)]
mod c12;
#[cfg(kani)]
mod c13;
#[cfg(kani)]
mod c14;
#[cfg(kani)]
mod c15;
#[cfg(kani)]
mod c16;
#[cfg(kani)]
mod c17;
#[cfg(kani)]
mod c18;
#[cfg(kani)]
mod c01;
#[cfg(kani)]
mod c02;
#[cfg(kani)]
mod c03;
#[cfg(kani)]
mod c04;
#[cfg(kani)]
mod c05;
#[cfg(kani)]
mod c06;
#[cfg(kani)]
mod c07;
#[cfg(kani)]
mod c08;
#[cfg(kani)]
mod c09;
#[cfg(kani)]
mod gen;
#[cfg(kani)] mod exp;
