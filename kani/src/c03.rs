//! C03 — sample lookup in non-fragmented files follows the ISO sample-table semantics.
//! Generic harness bodies; the per-shape `#[kani::proof]` wrappers are generated into
//! gen/c03.rs by shapes/c03.py (shape = chunk partition + stsc run grouping, or number of
//! stts/ctts/stss entries; every value is symbolic).
use crate::common::model::*;
use mp4::verif_hooks::*;
use mp4::*;
use std::io::Cursor;

pub const OFF_LIMIT: u64 = 1 << 62;

fn stbl_offsets<const N: usize, const C: usize>(
    runs: &[Run],
    offs: &[u64; C],
    sizes: &[u32; N],
    use_co64: bool,
    var: bool,
    fixed: u32,
) -> StblBox {
    let mut stbl = StblBox::default();
    stbl.stsc = stsc_from(runs);
    stbl.stsz.sample_count = N as u32;
    if var {
        stbl.stsz.sample_size = 0;
        stbl.stsz.sample_sizes = sizes.to_vec();
    } else {
        stbl.stsz.sample_size = fixed;
    }
    if use_co64 {
        let mut b = Co64Box::default();
        b.entries = offs.to_vec();
        stbl.co64 = Some(b);
    } else {
        let mut b = StcoBox::default();
        let mut i = 0;
        while i < C {
            b.entries.push(offs[i] as u32);
            i += 1;
        }
        stbl.stco = Some(b);
    }
    stbl
}

fn size_of<const N: usize>(sizes: &[u32; N], var: bool, fixed: u32, k: u32) -> u32 {
    if var {
        sizes[(k - 1) as usize]
    } else {
        fixed
    }
}

/// sample_offset / sample_size / sample_count against the formula, for every k: u32.
/// N samples in C chunks (`chunks[c]` samples in chunk c), `runs` = the stsc encoding of it.
pub fn h03_offset<const N: usize, const C: usize>(chunks: [u32; C], runs: &[Run]) {
    let offs: [u64; C] = kani::any();
    let sizes: [u32; N] = kani::any();
    let use_co64: bool = kani::any();
    let var: bool = kani::any();
    let fixed: u32 = kani::any();
    kani::assume(fixed > 0);
    let mut i = 0;
    while i < C {
        // a consistent file keeps every chunk inside the file: far below 2^62; stco offsets are u32
        kani::assume(offs[i] < OFF_LIMIT);
        if !use_co64 {
            kani::assume(offs[i] <= u32::MAX as u64);
        }
        i += 1;
    }
    if N > 0 {
        // constant-size mode needs sample_size > 0; with N == 0 both encodings are legal
    }
    let track = track_from(stbl_offsets::<N, C>(runs, &offs, &sizes, use_co64, var, fixed));
    let k: u32 = kani::any();

    assert!(track.sample_count() == N as u32, "C03 sample_count equals the size table's count");

    let got = track.sample_offset(k);
    let mut hit = false;
    match locate(&chunks, k) {
        Some((c, pos)) => {
            let first_in_chunk = k - pos;
            let mut want: u64 = offs[c];
            let mut j = 0;
            while j < pos {
                want += size_of::<N>(&sizes, var, fixed, first_in_chunk + j) as u64;
                j += 1;
            }
            match got {
                Ok(v) => assert!(v == want, "C03 sample_offset == chunk offset + earlier sizes in the chunk"),
                Err(e) => {
                    std::mem::forget(e);
                    assert!(false, "C03 sample_offset of an existing sample must succeed");
                }
            }
            match track.verif_sample_size(k) {
                Ok(s) => assert!(s == size_of::<N>(&sizes, var, fixed, k), "C03 sample size"),
                Err(e) => {
                    std::mem::forget(e);
                    assert!(false, "C03 sample_size of an existing sample must succeed");
                }
            }
            kani::cover!(pos > 0, "(opt) a sample that is not first in its chunk");
            kani::cover!(c > 0, "(opt) a sample in a later chunk");
            hit = true;
        }
        None => {
            // ids outside 1..=count: the offset lookup must not produce a value that
            // read_sample would turn into a sample
            match got {
                Ok(_) => assert!(false, "C03 ids outside 1..=count have no offset"),
                Err(e) => std::mem::forget(e),
            }
            kani::cover!(k > N as u32, "id past the end");
            kani::cover!(k == 0, "id zero");
        }
    }
    kani::cover!(N == 0 || hit, "an existing sample was looked up (or the track is empty)");
    std::mem::forget(track);
}

/// read_sample end to end on a small stream: bytes, timing, offset, sync and the mapping of table
/// misses to "no sample". Sizes are <= 2 bytes and offsets < 12 so that every sample lies inside
/// the 16-byte stream (the byte comparison needs that; full-range values are h03_offset's job).
///
/// `flags` (concrete, rotated over the shapes by the generator so that every combination occurs):
/// bit0 co64 instead of stco, bit1 per-sample sizes, bit2 ctts present, bit3 stss present. What each
/// flag does on its own for *all* values is decided by h03_offset / h03_ctts / h03_stss; this
/// harness decides the composition performed by read_sample.
pub fn h03_read<const N: usize, const C: usize>(chunks: [u32; C], runs: &[Run], flags: u8) {
    let offs: [u64; C] = kani::any();
    let sizes: [u32; N] = kani::any();
    let use_co64: bool = flags & 1 != 0;
    let var: bool = flags & 2 != 0;
    let fixed: u32 = kani::any();
    kani::assume(fixed > 0 && fixed <= 2);
    let mut i = 0;
    while i < C {
        kani::assume(offs[i] < 8);
        i += 1;
    }
    let mut i = 0;
    while i < N {
        kani::assume(sizes[i] <= 2);
        i += 1;
    }
    let mut stbl = stbl_offsets::<N, C>(runs, &offs, &sizes, use_co64, var, fixed);
    // time tables: one stts run of N samples with a symbolic delta; optional one-run ctts;
    // optional stss listing exactly one symbolic sample
    let delta: u32 = kani::any();
    if N > 0 {
        stbl.stts.entries.push(SttsEntry { sample_count: N as u32, sample_delta: delta });
    }
    let has_ctts: bool = flags & 4 != 0;
    let cts: i32 = kani::any();
    if has_ctts && N > 0 {
        let mut c = CttsBox::default();
        c.entries.push(CttsEntry { sample_count: N as u32, sample_offset: cts });
        stbl.ctts = Some(c);
    }
    let has_stss: bool = flags & 8 != 0;
    let sync_id: u32 = kani::any();
    kani::assume(sync_id >= 1 && sync_id <= N as u32 || N == 0);
    if has_stss {
        let mut s = StssBox::default();
        if N > 0 {
            s.entries.push(sync_id);
        }
        stbl.stss = Some(s);
    }
    let track = track_from(stbl);
    let data: [u8; 16] = kani::any();
    let mut cur = Cursor::new(&data[..]);
    let k: u32 = kani::any();
    let got = track.verif_read_sample(&mut cur, k);
    let mut hit = false;
    match locate(&chunks, k) {
        Some((c, pos)) => {
            let first_in_chunk = k - pos;
            let mut want: u64 = offs[c];
            let mut j = 0;
            while j < pos {
                want += size_of::<N>(&sizes, var, fixed, first_in_chunk + j) as u64;
                j += 1;
            }
            let sz = size_of::<N>(&sizes, var, fixed, k) as usize;
            match got {
                Ok(Some(s)) => {
                    assert!(s.bytes.len() == sz, "C03 sample length");
                    let mut j = 0;
                    while j < 2 {
                        if j < sz && j < s.bytes.len() {
                            assert!(s.bytes[j] == data[want as usize + j], "C03 sample bytes are the bytes at the offset");
                        }
                        j += 1;
                    }
                    assert!(s.start_time == (k as u64 - 1) * delta as u64, "C03 start time = sum of earlier deltas");
                    assert!(s.duration == delta, "C03 duration = delta");
                    assert!(s.rendering_offset == if has_ctts { cts } else { 0 }, "C03 composition offset (0 without table)");
                    assert!(s.is_sync == (!has_stss || k == sync_id), "C03 sync = listed or no sync table");
                    std::mem::forget(s);
                }
                Ok(None) => assert!(false, "C03 an existing sample must be returned"),
                Err(e) => {
                    std::mem::forget(e);
                    assert!(false, "C03 an existing sample must be returned, not an error");
                }
            }
            kani::cover!(sz == 2 && pos > 0, "(opt) two-byte sample later in its chunk");
            hit = true;
        }
        None => match got {
            Ok(Some(s)) => {
                std::mem::forget(s);
                assert!(false, "C03 ids outside 1..=count never yield a sample");
            }
            Ok(None) => {
                kani::cover!(true, "(opt) miss reported as no sample");
            }
            Err(e) => std::mem::forget(e),
        },
    }
    kani::cover!(N == 0 || hit, "an existing sample was read (or the track is empty)");
    std::mem::forget(track);
}

/// sample_time over an stts table with E runs: run lengths symbolic in 0..=CMAX, deltas full range.
pub fn h03_stts<const E: usize>(cmax: u32) {
    let counts: [u32; E] = kani::any();
    let deltas: [u32; E] = kani::any();
    let mut stbl = StblBox::default();
    let mut total: u32 = 0;
    let mut i = 0;
    while i < E {
        kani::assume(counts[i] <= cmax);
        stbl.stts.entries.push(SttsEntry { sample_count: counts[i], sample_delta: deltas[i] });
        total += counts[i];
        i += 1;
    }
    stbl.stsz.sample_count = total;
    let track = track_from(stbl);
    let k: u32 = kani::any();
    // precondition established by read_sample: the offset lookup succeeded first, which it never
    // does for k == 0 (h03_offset / h03_read decide that); sample_time is private
    kani::assume(k >= 1);
    let got = track.verif_sample_time(k);
    // reference: walk the runs
    let mut first: u32 = 1;
    let mut elapsed: u64 = 0;
    let mut want: Option<(u64, u32)> = None;
    let mut i = 0;
    while i < E {
        if want.is_none() && k >= first && k < first + counts[i] {
            want = Some((elapsed + (k - first) as u64 * deltas[i] as u64, deltas[i]));
        }
        elapsed += counts[i] as u64 * deltas[i] as u64;
        first += counts[i];
        i += 1;
    }
    match (got, want) {
        (Ok((t, d)), Some((wt, wd))) => {
            assert!(t == wt, "C03 start time = sum of earlier deltas");
            assert!(d == wd, "C03 delta of the run containing k");
            kani::cover!(E > 1 && t > 0 && wd != deltas[0], "(opt) a sample in a later run");
        }
        (Err(e), None) => {
            std::mem::forget(e);
            kani::cover!(true, "id outside the table is an error");
        }
        (Ok(_), None) => {
            assert!(false, "C03 only existing samples have a time");
        }
        (Err(e), Some(_)) => {
            std::mem::forget(e);
            assert!(false, "C03 existing sample must have a time");
        }
    }
    std::mem::forget(track);
}

/// sample_rendering_offset over a ctts table with E runs (or no table).
pub fn h03_ctts<const E: usize>(present: bool, cmax: u32) {
    let counts: [u32; E] = kani::any();
    let offsets: [i32; E] = kani::any();
    let mut stbl = StblBox::default();
    let mut total: u32 = 0;
    let mut c = CttsBox::default();
    let mut i = 0;
    while i < E {
        kani::assume(counts[i] <= cmax);
        c.entries.push(CttsEntry { sample_count: counts[i], sample_offset: offsets[i] });
        total += counts[i];
        i += 1;
    }
    if present {
        stbl.ctts = Some(c);
    }
    stbl.stsz.sample_count = total;
    let track = track_from(stbl);
    let k: u32 = kani::any();
    kani::assume(k >= 1);
    let got = track.verif_sample_rendering_offset(k);
    let mut first: u32 = 1;
    let mut want: i32 = 0;
    let mut found = false;
    let mut i = 0;
    while i < E {
        if !found && k >= first && k < first + counts[i] {
            want = offsets[i];
            found = true;
        }
        first += counts[i];
        i += 1;
    }
    if !present {
        assert!(got == 0, "C03 composition offset is 0 without a table");
    } else if found {
        assert!(got == want, "C03 composition offset of the run containing k");
        kani::cover!(E > 1 && want != offsets[0], "(opt) later run");
    }
    kani::cover!(true);
    std::mem::forget(track);
}

/// is_sync_sample with a sync table of E strictly increasing entries (or none).
pub fn h03_stss<const E: usize>(present: bool) {
    let entries: [u32; E] = kani::any();
    let mut stbl = StblBox::default();
    let mut s = StssBox::default();
    let mut i = 0;
    while i < E {
        kani::assume(entries[i] >= 1);
        if i > 0 {
            kani::assume(entries[i] > entries[i - 1]);
        }
        s.entries.push(entries[i]);
        i += 1;
    }
    if present {
        stbl.stss = Some(s);
    }
    let track = track_from(stbl);
    let k: u32 = kani::any();
    let got = track.verif_is_sync_sample(k);
    let mut listed = false;
    let mut i = 0;
    while i < E {
        if entries[i] == k {
            listed = true;
        }
        i += 1;
    }
    assert!(got == (!present || listed), "C03 sync = (k is listed, or there is no sync table)");
    kani::cover!(got, "(opt) sync");
    kani::cover!(!got, "(opt) not sync");
    kani::cover!(true);
    std::mem::forget(track);
}
