//! C02 — muxer output is structurally valid and self-consistent.
//! h02tab: per-track table consistency after every history (same runs as C01's histories, own
//! assertions); h02dur: header durations; h02top: byte-level tiling of the top level on a
//! zero-track writer, walked by harness-side code that shares nothing with the crate.
use crate::c01::*;
use crate::common::{be32, be64, cc};
use mp4::verif_hooks::*;
use mp4::*;
use std::io::Cursor;

pub fn h02_tables<const K: usize>(kind: Kind, lens: [usize; K]) {
    let mut out = [0u8; 16];
    let (tw, w) = match run_history::<K>(kind, lens, &mut out, DUR_LIMIT) {
        Some(x) => x,
        None => {
            assert!(false, "C02 a valid configuration is accepted");
            return;
        }
    };
    let trak = tw.into_trak();
    let m = meaning::<K>(&trak);
    // `why` names the table that does not add up (see c01::meaning)
    assert!(m.why != 1 && m.why != 2, "C02 the size table accounts for exactly the samples written");
    assert!(m.why != 3 && m.why != 4 && m.why != 5, "C02 the time-to-sample table accounts for exactly the samples written");
    assert!(m.why != 6 && m.why != 7 && m.why != 8, "C02 the composition-offset table accounts for exactly the samples written");
    assert!(m.why != 9 && m.why != 10, "C02 sync-sample numbers are strictly increasing and in range");
    assert!(m.why < 11, "C02 the sample-to-chunk table and the chunk offsets account for exactly the samples written");
    assert!(m.ok);
    if m.ok {
        let mut total: u64 = 0;
        let mut i = 0;
        while i < K {
            total += lens[i] as u64;
            i += 1;
        }
        // every chunk lies wholly inside the bytes written (the media-data payload), chunks are
        // in increasing order and pairwise disjoint; checked for a symbolic pair of samples
        let i: usize = kani::any();
        let j: usize = kani::any();
        if i < K && j < K {
            assert!(m.off[i] + m.size[i] as u64 <= total, "C02 every chunk lies inside the media data written");
            if i < j {
                assert!(m.off[i] + m.size[i] as u64 <= m.off[j], "C02 samples/chunks are disjoint and in increasing order");
                kani::cover!(m.chunk[i] != m.chunk[j], "(opt) two samples in different chunks");
                kani::cover!(m.chunk[i] == m.chunk[j], "(opt) two samples in the same chunk");
            }
        }
    }
    let mut sum: u64 = 0;
    let mut i = 0;
    while i < K {
        sum += w.dur[i] as u64;
        i += 1;
    }
    assert!(trak.mdia.mdhd.duration == sum, "C02 media header duration equals the summed sample durations");
    kani::cover!(true, "history completed");
    std::mem::forget(trak);
}

macro_rules! tab {
    ($name:ident, $unwind:expr, $k:expr, $kind:expr, $lens:expr) => {
        #[kani::proof]
        #[kani::unwind($unwind)]
        fn $name() {
            h02_tables::<$k>($kind, $lens)
        }
    };
}
/// Light two-sample history for the quick tier (see c01::h01_sums): every run-length table accounts
/// for exactly the samples written; sync numbers increasing and in range.
pub fn h02_sums<const K: usize>(lens: [usize; K]) {
    let mut out = [0u8; 16];
    let (tw, w) = match run_history::<K>(Kind::Ttxt, lens, &mut out, DUR_LIMIT) {
        Some(x) => x,
        None => {
            assert!(false, "C02 a valid configuration is accepted");
            return;
        }
    };
    let trak = tw.into_trak();
    let stbl = &trak.mdia.minf.stbl;
    assert!(stbl.stsz.sample_count == K as u32, "C02 the size table accounts for exactly the samples written");
    let mut n: u64 = 0;
    let mut r = 0;
    while r < K {
        if r < stbl.stts.entries.len() {
            n += stbl.stts.entries[r].sample_count as u64;
        }
        r += 1;
    }
    assert!(stbl.stts.entries.len() <= K && n == K as u64, "C02 the time-to-sample table accounts for exactly the samples written");
    if let Some(ref ctts) = stbl.ctts {
        let mut n: u64 = 0;
        let mut r = 0;
        while r < K {
            if r < ctts.entries.len() {
                n += ctts.entries[r].sample_count as u64;
            }
            r += 1;
        }
        assert!(ctts.entries.len() <= K && n == K as u64, "C02 the composition-offset table accounts for exactly the samples written");
    }
    if let Some(ref stss) = stbl.stss {
        let mut prev: u32 = 0;
        let mut r = 0;
        while r < K {
            if r < stss.entries.len() {
                assert!(stss.entries[r] > prev && stss.entries[r] as usize <= K, "C02 sync-sample numbers are strictly increasing and in range");
                prev = stss.entries[r];
            }
            r += 1;
        }
        assert!(stss.entries.len() <= K);
    }
    let mut sum: u64 = 0;
    let mut i = 0;
    while i < K {
        sum += w.dur[i] as u64;
        i += 1;
    }
    assert!(trak.mdia.mdhd.duration == sum, "C02 media header duration equals the summed sample durations");
    kani::cover!(true, "history completed");
    std::mem::forget(trak);
}
#[kani::proof]
#[kani::unwind(5)]
fn q_h02sums__ttxt_k2_len11() {
    h02_sums::<2>([1, 1])
}
#[kani::proof]
#[kani::unwind(6)]
fn t_h02sums__ttxt_k3_len101() {
    h02_sums::<3>([1, 0, 1])
}

/// two samples, concrete small durations (see c01::FIXED_DUR)
#[kani::proof]
#[kani::unwind(5)]
fn t_h02fix__ttxt_k2_len11_dur1() {
    unsafe { FIXED_DUR = Some(1) };
    h02_tables::<2>(Kind::Ttxt, [1, 1])
}
tab!(q_h02tab__ttxt_k0, 4, 0, Kind::Ttxt, []);
tab!(q_h02tab__ttxt_k1_len1, 4, 1, Kind::Ttxt, [1]);
tab!(q_h02tab__ttxt_k1_len0, 4, 1, Kind::Ttxt, [0]);
tab!(t_h02tab__ttxt_k2_len11, 5, 2, Kind::Ttxt, [1, 1]);
tab!(t_h02tab__ttxt_k2_len12, 5, 2, Kind::Ttxt, [1, 2]);
tab!(t_h02tab__ttxt_k2_len01, 5, 2, Kind::Ttxt, [0, 1]);
tab!(t_h02tab__ttxt_k2_len10, 5, 2, Kind::Ttxt, [1, 0]);
tab!(t_h02tab__ttxt_k2_len00, 5, 2, Kind::Ttxt, [0, 0]);
tab!(t_h02tab__ttxt_k2_len22, 5, 2, Kind::Ttxt, [2, 2]);
tab!(t_h02tab__ttxt_k3_len111, 6, 3, Kind::Ttxt, [1, 1, 1]);
tab!(t_h02tab__ttxt_k3_len121, 6, 3, Kind::Ttxt, [1, 2, 1]);
tab!(t_h02tab__ttxt_k3_len101, 6, 3, Kind::Ttxt, [1, 0, 1]);

/// Track header duration = media duration converted to the movie timescale, to within one tick.
/// Written without division: |tkhd * track_ts - sum * movie_ts| <= track_ts  (one tick of the
/// movie timescale is track_ts/movie_ts media ticks). Durations < 2^20 and timescales < 2^20 keep
/// the products inside u64 and the multipliers small.
pub fn h02_dur<const K: usize>(track_ts: u32, movie_ts: u32) {
    // timescales concrete per harness (the writer divides a 128-bit product by the track timescale;
    // with both symbolic the query does not finish in the cap), sample durations symbolic < 2^20
    let cfg = track_config(Kind::Ttxt, track_ts);
    let mut tw = match VerifTrackWriter::new(1, &cfg) {
        Ok(t) => t,
        Err(e) => {
            std::mem::forget(e);
            return;
        }
    };
    std::mem::forget(cfg);
    let mut out = [0u8; 16];
    let mut cur = Cursor::new(&mut out[..]);
    let dur: [u32; K] = kani::any();
    let mut sum: u64 = 0;
    let mut last: u64 = 0;
    let mut i = 0;
    while i < K {
        kani::assume(dur[i] < (1 << 20));
        let s = Mp4Sample { start_time: 0, duration: dur[i], rendering_offset: 0, is_sync: true, bytes: Bytes::new() };
        match tw.write_sample(&mut cur, &s, movie_ts) {
            Ok(d) => last = d,
            Err(e) => {
                std::mem::forget(e);
                assert!(false, "C02 write_sample succeeds");
            }
        }
        std::mem::forget(s);
        sum += dur[i] as u64;
        i += 1;
    }
    let tk = tw.trak().tkhd.duration;
    assert!(tw.trak().mdia.mdhd.duration == sum, "C02 media header duration equals the summed sample durations");
    assert!(K == 0 || last == tk, "C02 write_sample reports the track duration (feeds the movie duration = longest track)");
    let lhs = tk * track_ts as u64;
    let rhs = sum * movie_ts as u64;
    let diff = if lhs > rhs { lhs - rhs } else { rhs - lhs };
    assert!(diff <= track_ts as u64, "C02 track header duration equals the media duration in the movie timescale to within one tick");
    kani::cover!(true, "durations checked");
    std::mem::forget(tw);
}

#[kani::proof]
#[kani::unwind(5)]
fn q_h02dur__k2_ts1000_movie90000() {
    h02_dur::<2>(1000, 90000)
}
#[kani::proof]
#[kani::unwind(5)]
fn q_h02dur__k2_ts90000_movie1000() {
    h02_dur::<2>(90000, 1000)
}
#[kani::proof]
#[kani::unwind(6)]
fn t_h02dur__k3_ts44100_movie600() {
    h02_dur::<3>(44100, 600)
}
#[kani::proof]
#[kani::unwind(6)]
fn t_h02dur__k3_ts30000_movie1001() {
    h02_dur::<3>(30000, 1001)
}

/// Independent top-level walk (no code from `mp4`): returns (type, start, size) of the top-level
/// box starting at `at`, understanding the 64-bit size form; None if it does not fit in `len`.
fn top_box(b: &[u8], at: usize, len: usize) -> Option<(u32, usize, u64, usize)> {
    if at + 8 > len {
        return None;
    }
    let s32 = be32(b, at) as u64;
    let ty = be32(b, at + 4);
    if s32 == 1 {
        if at + 16 > len {
            return None;
        }
        Some((ty, at, be64(b, at + 8), 16))
    } else {
        Some((ty, at, s32, 8))
    }
}

/// Zero-track writer (moov = mvhd only): ftyp first, then mdat whose size covers exactly the bytes
/// up to moov, then moov ending exactly at the end of the output; B compatible brands, brands /
/// minor version / timescale symbolic.
pub fn h02_top<const B: usize>() {
    let mut out = [0u8; 192];
    let brands: [[u8; 4]; B] = kani::any();
    let mut cb = Vec::new();
    let mut i = 0;
    while i < B {
        cb.push(FourCC::from(brands[i]));
        i += 1;
    }
    let major: [u8; 4] = kani::any();
    let minor: u32 = kani::any();
    let ts: u32 = kani::any();
    let cfg = Mp4Config { major_brand: FourCC::from(major), minor_version: minor, compatible_brands: cb, timescale: ts };
    let end;
    {
        let mut w = match Mp4Writer::write_start(Cursor::new(&mut out[..]), &cfg) {
            Ok(w) => w,
            Err(e) => {
                std::mem::forget(e);
                assert!(false, "C02 write_start succeeds");
                return;
            }
        };
        match w.write_end() {
            Ok(()) => {}
            Err(e) => {
                std::mem::forget(e);
                assert!(false, "C02 write_end succeeds");
            }
        }
        end = w.verif_writer().position() as usize;
        std::mem::forget(w);
    }
    std::mem::forget(cfg);
    assert!(end <= 192);
    // ftyp
    match top_box(&out, 0, end) {
        Some((ty, _, size, hdr)) => {
            assert!(ty == cc(b"ftyp") && hdr == 8, "C02 one ftyp first");
            assert!(size == 16 + 4 * B as u64, "C02 ftyp size = header + major + minor + brands");
            assert!(be32(&out, 8) == cc(&major) && be32(&out, 12) == minor, "C02 ftyp carries the configured brand and version");
            let a = size as usize;
            // mdat
            match top_box(&out, a, end) {
                Some((ty2, _, size2, _)) => {
                    assert!(ty2 == cc(b"mdat"), "C02 media data follows ftyp");
                    assert!(size2 >= 16, "C02 mdat covers its header and the placeholder");
                    let b2 = a + size2 as usize;
                    match top_box(&out, b2, end) {
                        Some((ty3, _, size3, _)) => {
                            assert!(ty3 == cc(b"moov"), "C02 the media-data size covers exactly the bytes up to the next top-level box (moov)");
                            assert!(b2 + size3 as usize == end, "C02 top-level boxes tile the output exactly");
                            // moov's only child here is mvhd: header + child
                            assert!(be32(&out, b2 + 12) == cc(b"mvhd"));
                            assert!(size3 == 8 + be32(&out, b2 + 8) as u64, "C02 moov size = header + children");
                            kani::cover!(true, "walk completed");
                        }
                        None => assert!(false, "C02 a moov box follows the media data"),
                    }
                }
                None => assert!(false, "C02 a media-data box follows ftyp"),
            }
        }
        None => assert!(false, "C02 the output starts with a box"),
    }
}

#[kani::proof]
#[kani::unwind(26)]
fn q_h02top__brands0() {
    h02_top::<0>()
}
#[kani::proof]
#[kani::unwind(26)]
fn q_h02top__brands2() {
    h02_top::<2>()
}
#[kani::proof]
#[kani::unwind(26)]
fn t_h02top__brands1() {
    h02_top::<1>()
}
