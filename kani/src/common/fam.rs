//! Harness families shared by several properties, as macros over (box type, value, buffer size).
//! Readers are `Cursor<&[u8]>`, writers `Cursor<&mut [u8]>` over a fixed array: the only
//! instantiations claimed.

/// C04: write_box -> BoxHeader::read -> read_box. `$nb` >= encoded size + 8 (trailing sibling
/// bytes are symbolic because the buffer starts out symbolic).
#[macro_export]
macro_rules! c04_roundtrip {
    ($ty:ty, $v:expr, $nb:expr) => {{
        use mp4::{BoxHeader, Mp4Box, ReadBox, WriteBox};
        use std::io::Cursor;
        let v: $ty = $v;
        let mut buf: [u8; $nb] = kani::any();
        let n: u64;
        {
            let mut w = Cursor::new(&mut buf[..]);
            match v.write_box(&mut w) {
                Ok(k) => {
                    assert!(w.position() == k, "C04 write_box returns the number of bytes written");
                    n = k;
                }
                Err(e) => {
                    std::mem::forget(e);
                    assert!(false, "C04 encoding a representable value succeeds");
                    return;
                }
            }
        }
        assert!(n == v.box_size(), "C04 write_box writes exactly box_size() bytes");
        assert!(n + 8 <= $nb as u64, "harness buffer leaves room for sibling bytes");
        let mut r = Cursor::new(&buf[..]);
        match BoxHeader::read(&mut r) {
            Ok(h) => {
                assert!(h.size == n, "C04 header carries box_size()");
                assert!(h.name == v.box_type(), "C04 header carries the box's own type");
                match <$ty>::read_box(&mut r, h.size) {
                    Ok(back) => {
                        assert!(r.position() == n, "C04 decoding leaves the stream at the end of the box");
                        assert!(back == v, "C04 decode(encode(v)) == v");
                        kani::cover!(true, "round trip completed");
                        std::mem::forget(back);
                    }
                    Err(e) => {
                        std::mem::forget(e);
                        assert!(false, "C04 decoding the encoded bytes succeeds");
                    }
                }
            }
            Err(e) => {
                std::mem::forget(e);
                assert!(false, "C04 header of the encoded box is readable");
            }
        }
        std::mem::forget(v);
    }};
}

/// C05: write_box output == reference encoder output, byte for byte (compared at a symbolic index,
/// which covers every position without a loop). `$mask` maps an offset to bits excluded from the
/// comparison (reserved bits), usually `|_| 0`.
#[macro_export]
macro_rules! c05_encode {
    ($ty:ty, $v:expr, $refenc:path, $nb:expr, $mask:expr) => {{
        use mp4::{BoxHeader, Mp4Box, ReadBox, WriteBox};
        use std::io::Cursor;
        let v: $ty = $v;
        let mut buf = [0u8; $nb];
        let n: u64;
        {
            let mut w = Cursor::new(&mut buf[..]);
            match v.write_box(&mut w) {
                Ok(k) => n = k,
                Err(e) => {
                    std::mem::forget(e);
                    assert!(false, "C05 encoding a representable value succeeds");
                    return;
                }
            }
        }
        let mut exp = [0u8; $nb];
        let m = $refenc(&v, &mut exp);
        assert!(m as u64 == n, "C05 encoded length equals the reference layout's length");
        let i: usize = kani::any();
        kani::assume(i < $nb);
        let mask: u8 = ($mask)(i);
        assert!(buf[i] & !mask == exp[i] & !mask, "C05 encoded bytes equal the reference layout");
        kani::cover!(i + 1 == m, "last byte compared");
        std::mem::forget(v);
    }};
}

/// C05 (decode direction for alternative forms) / generic: decode reference bytes and compare.
#[macro_export]
macro_rules! c05_decode_ref {
    ($ty:ty, $v:expr, $refenc:path, $nb:expr) => {{
        use mp4::{BoxHeader, Mp4Box, ReadBox, WriteBox};
        use std::io::Cursor;
        let v: $ty = $v;
        let mut exp = [0u8; $nb];
        let m = $refenc(&v, &mut exp) as u64;
        let mut r = Cursor::new(&exp[..]);
        match BoxHeader::read(&mut r) {
            Ok(h) => {
                assert!(h.size == m && h.name == v.box_type(), "C05 reference header decodes to size and type");
                match <$ty>::read_box(&mut r, h.size) {
                    Ok(back) => {
                        assert!(r.position() == m, "C05 decoding reference bytes consumes the box");
                        assert!(back == v, "C05 reference bytes decode to the same field values");
                        kani::cover!(true, "reference bytes decoded");
                        std::mem::forget(back);
                    }
                    Err(e) => {
                        std::mem::forget(e);
                        assert!(false, "C05 reference bytes are accepted");
                    }
                }
            }
            Err(e) => {
                std::mem::forget(e);
                assert!(false, "C05 reference header is readable");
            }
        }
        std::mem::forget(v);
    }};
}

/// C06 / C07 / C08 share one body: any decoder on an arbitrary buffer of `$nb` bytes (the whole
/// "file": sizes a caller can pass are bounded by the true length, so `size <= $nb`), cursor just
/// behind the 8-byte header. C06: Kani's implicit panic/overflow/index/unwrap checks. C07: the
/// reader counts stream operations and the unwinding assertions bound every loop. C08: allocator
/// stubs (see common/alloc.rs) bound every request.
#[macro_export]
macro_rules! dec_any {
    ($ty:ty, $nb:expr, $size:expr, $reader:expr, $after:expr) => {{
        use mp4::{BoxHeader, Mp4Box, ReadBox, WriteBox};
        let buf: [u8; $nb] = kani::any();
        // `$size`: `any_size($nb)` (symbolic, <= buffer length) for table / fixed-layout decoders; a
        // concrete value per harness for decoders that size a heap buffer from it (a heap object
        // of symbolic size does not get through CBMC: DESIGN.md 2.2)
        let size: u64 = $size;
        kani::assume(size <= $nb as u64);
        let mut r = ($reader)(&buf[..]);
        match <$ty>::read_box(&mut r, size) {
            Ok(v) => {
                kani::cover!(true, "(opt) accepted");
                std::mem::forget(v);
            }
            Err(e) => {
                kani::cover!(true, "(opt) rejected");
                std::mem::forget(e);
            }
        }
        ($after)(&r, size);
        kani::cover!(true, "decoder returned");
    }};
}
