//! Reference semantics of the ISO/IEC 14496-12 sample tables (8.6, 8.7) and helpers to build an
//! `Mp4Track` directly from tables. The reference functions are straight-line loops over the
//! *shape-typed* tables; they share no code with `mp4::Mp4Track`.
use mp4::verif_hooks::*;
use mp4::*;

/// One run of the sample-to-chunk table as the wire carries it, plus the derived first sample.
#[derive(Clone, Copy)]
pub struct Run {
    pub first_chunk: u32,
    pub spc: u32,
    pub first_sample: u32,
}

/// Build stsc entries from concrete runs.
pub fn stsc_from(runs: &[Run]) -> StscBox {
    let mut b = StscBox::default();
    let mut i = 0;
    while i < runs.len() {
        b.entries.push(StscEntry {
            first_chunk: runs[i].first_chunk,
            samples_per_chunk: runs[i].spc,
            sample_description_index: 1,
            first_sample: runs[i].first_sample,
        });
        i += 1;
    }
    b
}

/// A track whose stbl carries the given tables; everything else is `Default`.
pub fn track_from(stbl: StblBox) -> Mp4Track {
    let mut trak = TrakBox::default();
    trak.tkhd.track_id = 1;
    trak.mdia.minf.stbl = stbl;
    Mp4Track { trak, trafs: Vec::new(), moof_offsets: Vec::new(), default_sample_duration: 0 }
}

/// 14496-12 8.7.4 + 8.7.5 + 8.7.3: chunk index (0-based) and position in the chunk of sample
/// `k` (1-based) for a concrete partition `chunks[c]` = number of samples in chunk c.
pub fn locate(chunks: &[u32], k: u32) -> Option<(usize, u32)> {
    if k == 0 {
        return None;
    }
    let mut first: u32 = 1;
    let mut c = 0;
    while c < chunks.len() {
        if k < first + chunks[c] {
            return Some((c, k - first));
        }
        first += chunks[c];
        c += 1;
    }
    None
}
