//! Reference byte writer for the independent encoders (`refenc`): big-endian fields written by
//! hand into a fixed array. Shares no code with `mp4` or `byteorder`.

pub struct RefW<'a> {
    pub b: &'a mut [u8],
    pub p: usize,
}

impl<'a> RefW<'a> {
    pub fn new(b: &'a mut [u8]) -> Self {
        RefW { b, p: 0 }
    }
    pub fn u8(&mut self, v: u8) {
        self.b[self.p] = v;
        self.p += 1;
    }
    pub fn i8(&mut self, v: i8) {
        self.u8(v as u8)
    }
    pub fn u16(&mut self, v: u16) {
        self.u8((v >> 8) as u8);
        self.u8(v as u8);
    }
    pub fn i16(&mut self, v: i16) {
        self.u16(v as u16)
    }
    pub fn u24(&mut self, v: u32) {
        self.u8((v >> 16) as u8);
        self.u8((v >> 8) as u8);
        self.u8(v as u8);
    }
    pub fn u32(&mut self, v: u32) {
        self.u16((v >> 16) as u16);
        self.u16(v as u16);
    }
    pub fn i32(&mut self, v: i32) {
        self.u32(v as u32)
    }
    pub fn u48(&mut self, v: u64) {
        self.u16((v >> 32) as u16);
        self.u32(v as u32);
    }
    pub fn u64(&mut self, v: u64) {
        self.u32((v >> 32) as u32);
        self.u32(v as u32);
    }
    pub fn cc(&mut self, c: &[u8; 4]) {
        self.u8(c[0]);
        self.u8(c[1]);
        self.u8(c[2]);
        self.u8(c[3]);
    }
    pub fn bytes(&mut self, s: &[u8]) {
        let mut i = 0;
        while i < s.len() {
            self.u8(s[i]);
            i += 1;
        }
    }
    pub fn zeros(&mut self, n: usize) {
        // the target array is zero-initialised by every caller: skipping is writing zeros
        self.p += n;
    }
    /// start a box: 32-bit size placeholder + type; returns the start position
    pub fn begin(&mut self, c: &[u8; 4]) -> usize {
        let s = self.p;
        self.p += 4;
        self.cc(c);
        s
    }
    /// start a full box (version + 24-bit flags)
    pub fn begin_full(&mut self, c: &[u8; 4], version: u8, flags: u32) -> usize {
        let s = self.begin(c);
        self.u8(version);
        self.u24(flags);
        s
    }
    /// patch the 32-bit size of the box started at `s`
    pub fn end(&mut self, s: usize) {
        let n = (self.p - s) as u32;
        self.b[s] = (n >> 24) as u8;
        self.b[s + 1] = (n >> 16) as u8;
        self.b[s + 2] = (n >> 8) as u8;
        self.b[s + 3] = n as u8;
    }
}
