//! Shared harness-side helpers. Nothing in here calls into `mp4` except where stated.
pub mod alloc;
pub mod boxes;
pub mod fam;
pub mod model;
pub mod rd;
pub mod refw;
pub mod wr;

/// Big-endian helpers written by hand (the oracle must not share `byteorder` with the crate).
pub fn be32(b: &[u8], at: usize) -> u32 {
    ((b[at] as u32) << 24) | ((b[at + 1] as u32) << 16) | ((b[at + 2] as u32) << 8) | (b[at + 3] as u32)
}
pub fn be16(b: &[u8], at: usize) -> u16 {
    ((b[at] as u16) << 8) | (b[at + 1] as u16)
}
pub fn be64(b: &[u8], at: usize) -> u64 {
    ((be32(b, at) as u64) << 32) | (be32(b, at + 4) as u64)
}
pub fn put32(b: &mut [u8], at: usize, v: u32) {
    b[at] = (v >> 24) as u8;
    b[at + 1] = (v >> 16) as u8;
    b[at + 2] = (v >> 8) as u8;
    b[at + 3] = v as u8;
}
pub fn put16(b: &mut [u8], at: usize, v: u16) {
    b[at] = (v >> 8) as u8;
    b[at + 1] = v as u8;
}
pub fn put24(b: &mut [u8], at: usize, v: u32) {
    b[at] = (v >> 16) as u8;
    b[at + 1] = (v >> 8) as u8;
    b[at + 2] = v as u8;
}
pub fn put64(b: &mut [u8], at: usize, v: u64) {
    put32(b, at, (v >> 32) as u32);
    put32(b, at + 4, v as u32);
}
pub const fn cc(s: &[u8; 4]) -> u32 {
    ((s[0] as u32) << 24) | ((s[1] as u32) << 16) | ((s[2] as u32) << 8) | (s[3] as u32)
}
