//! Harness-side output streams.
use std::io::{self, Seek, SeekFrom, Write};

/// A sparse, position-only `Write + Seek`: it tracks the absolute stream position (a u64 that may
/// be symbolic: the start offset and any gap the harness seeks over are `kani::any()` values) and
/// keeps a log of the writes of 1..=8 bytes (every header field the crate writes is one such write)
/// as (absolute position, length, big-endian value). Longer writes are payload and are dropped.
/// Reading back a field is a search of the log by *position equality* -- no array is ever indexed
/// with a symbolic index. This is how the 4 GiB boundaries are reached without 4 GiB of data.
pub const LOG: usize = 80;
pub struct Sparse {
    pub pos: u64,
    pub end: u64,
    pub n: usize,
    pub at: [u64; LOG],
    pub len: [u8; LOG],
    pub val: [u64; LOG],
    pub writes: u32,
}

impl Sparse {
    pub fn new(start: u64) -> Self {
        Sparse { pos: start, end: start, n: 0, at: [0; LOG], len: [0; LOG], val: [0; LOG], writes: 0 }
    }
    /// the value last written at exactly [abs, abs+len): None if the newest write overlapping that
    /// range is not exactly that range (or there is none)
    fn field(&self, abs: u64, len: u8) -> Option<u64> {
        let mut i = LOG;
        while i > 0 {
            i -= 1;
            if i < self.n {
                let overlaps = abs < self.at[i] + self.len[i] as u64 && self.at[i] < abs + len as u64;
                if overlaps {
                    return if self.at[i] == abs && self.len[i] == len { Some(self.val[i]) } else { None };
                }
            }
        }
        None
    }
    pub fn get(&self, abs: u64) -> Option<u8> {
        self.field(abs, 1).map(|v| v as u8)
    }
    pub fn get32(&self, abs: u64) -> Option<u32> {
        self.field(abs, 4).map(|v| v as u32)
    }
    pub fn get64(&self, abs: u64) -> Option<u64> {
        self.field(abs, 8)
    }
}

impl Write for Sparse {
    fn write(&mut self, buf: &[u8]) -> io::Result<usize> {
        self.writes += 1;
        if buf.len() >= 1 && buf.len() <= 8 && self.n < LOG {
            let mut v: u64 = 0;
            let mut i = 0;
            while i < 8 {
                if i < buf.len() {
                    v = (v << 8) | buf[i] as u64;
                }
                i += 1;
            }
            self.at[self.n] = self.pos;
            self.len[self.n] = buf.len() as u8;
            self.val[self.n] = v;
            self.n += 1;
        }
        self.pos += buf.len() as u64;
        if self.pos > self.end {
            self.end = self.pos;
        }
        Ok(buf.len())
    }
    fn write_all(&mut self, buf: &[u8]) -> io::Result<()> {
        self.write(buf).map(|_| ())
    }
    fn flush(&mut self) -> io::Result<()> {
        Ok(())
    }
}

impl Seek for Sparse {
    fn seek(&mut self, to: SeekFrom) -> io::Result<u64> {
        match to {
            SeekFrom::Start(p) => self.pos = p,
            SeekFrom::Current(d) => self.pos = (self.pos as i64 + d) as u64,
            SeekFrom::End(d) => self.pos = (self.end as i64 + d) as u64,
        }
        if self.pos > self.end {
            self.end = self.pos;
        }
        Ok(self.pos)
    }
    fn stream_position(&mut self) -> io::Result<u64> {
        Ok(self.pos)
    }
}

// ---------------------------------------------------------------- C10: faults on the write side
use std::io::Cursor;

#[derive(Clone, Copy, PartialEq, Eq)]
pub enum Fault {
    Error,
    ZeroWrite,
}

/// The k-th stream call (write / seek / flush, counted together from 0) fails: with an I/O error, or
/// -- for a write -- by accepting zero bytes.
pub struct FailW<'a> {
    pub inner: Cursor<&'a mut [u8]>,
    pub k: u32,
    pub calls: u32,
    pub fault: Fault,
    pub fired: bool,
}
pub fn fail_w(b: &mut [u8], k: u32, fault: Fault) -> FailW<'_> {
    FailW { inner: Cursor::new(b), k, calls: 0, fault, fired: false }
}
impl<'a> Write for FailW<'a> {
    fn write(&mut self, buf: &[u8]) -> io::Result<usize> {
        let n = self.calls;
        self.calls += 1;
        if n == self.k && !buf.is_empty() {
            self.fired = true;
            return match self.fault {
                Fault::Error => Err(io::Error::from(io::ErrorKind::Other)),
                Fault::ZeroWrite => Ok(0),
            };
        }
        self.inner.write(buf)
    }
    fn flush(&mut self) -> io::Result<()> {
        Ok(())
    }
}
impl<'a> Seek for FailW<'a> {
    fn seek(&mut self, pos: SeekFrom) -> io::Result<u64> {
        let n = self.calls;
        self.calls += 1;
        if n == self.k && self.fault == Fault::Error {
            self.fired = true;
            return Err(io::Error::from(io::ErrorKind::Other));
        }
        self.inner.seek(pos)
    }
    fn stream_position(&mut self) -> io::Result<u64> {
        Ok(self.inner.position())
    }
}

/// A writer that accepts at most `c` bytes per `write` call and reports one interrupted call;
/// `write_all` is not overridden.
pub struct ChunkedW<'a> {
    pub inner: Cursor<&'a mut [u8]>,
    pub c: usize,
    pub interrupt_at: u32,
    pub calls: u32,
}
pub fn chunked_w(b: &mut [u8], c: usize, interrupt_at: u32) -> ChunkedW<'_> {
    ChunkedW { inner: Cursor::new(b), c, interrupt_at, calls: 0 }
}
impl<'a> Write for ChunkedW<'a> {
    fn write(&mut self, buf: &[u8]) -> io::Result<usize> {
        let n = self.calls;
        self.calls += 1;
        if n == self.interrupt_at {
            return Err(io::Error::from(io::ErrorKind::Interrupted));
        }
        let m = if buf.len() > self.c { self.c } else { buf.len() };
        self.inner.write(&buf[..m])
    }
    fn flush(&mut self) -> io::Result<()> {
        Ok(())
    }
}
impl<'a> Seek for ChunkedW<'a> {
    fn seek(&mut self, pos: SeekFrom) -> io::Result<u64> {
        self.inner.seek(pos)
    }
}
