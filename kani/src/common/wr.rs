//! Harness-side output streams.
use std::io::{self, Seek, SeekFrom, Write};

/// A sparse, position-only `Write + Seek`: it tracks the absolute stream position (a u64 that may
/// be symbolic: the start offset and any gap the harness seeks over are `kani::any()` values) and
/// remembers only what is written at a few *watched* fields: (absolute position, length 1..=8),
/// registered by the harness before the writes happen. Every header field the crate writes is one
/// write call of 1..=8 bytes, so a field is caught by comparing the write's position and length with
/// the watch list -- no array is indexed with a symbolic index and nothing is searched afterwards.
/// Everything else written is dropped: it stands for payload. This is how the 4 GiB boundaries are
/// reached without 4 GiB of data.
pub const WATCH: usize = 8;
pub struct Sparse {
    pub pos: u64,
    pub end: u64,
    pub n: usize,
    pub at: [u64; WATCH],
    pub len: [u8; WATCH],
    pub val: [Option<u64>; WATCH],
    pub writes: u32,
}

impl Sparse {
    pub fn new(start: u64) -> Self {
        Sparse { pos: start, end: start, n: 0, at: [0; WATCH], len: [0; WATCH], val: [None; WATCH], writes: 0 }
    }
    /// watch the field [abs, abs+len); returns its handle
    pub fn watch(&mut self, abs: u64, len: u8) -> usize {
        let h = self.n;
        self.at[h] = abs;
        self.len[h] = len;
        self.n += 1;
        h
    }
    fn hit(&mut self, h: usize, n: usize, v: u64) {
        if h < self.n && self.at[h] == self.pos && self.len[h] as usize == n {
            self.val[h] = Some(v);
        }
    }
    /// last value written to watched field `h` (big-endian), None if it was never written
    pub fn seen(&self, h: usize) -> Option<u64> {
        self.val[h]
    }
}

impl Write for Sparse {
    fn write(&mut self, buf: &[u8]) -> io::Result<usize> {
        self.writes += 1;
        if buf.len() >= 1 && buf.len() <= 8 {
            // straight-line (no loops: a loop here would force every harness's unwind bound up)
            let n = buf.len();
            let mut v: u64 = buf[0] as u64;
            if n > 1 {
                v = (v << 8) | buf[1] as u64;
            }
            if n > 2 {
                v = (v << 8) | buf[2] as u64;
            }
            if n > 3 {
                v = (v << 8) | buf[3] as u64;
            }
            if n > 4 {
                v = (v << 8) | buf[4] as u64;
            }
            if n > 5 {
                v = (v << 8) | buf[5] as u64;
            }
            if n > 6 {
                v = (v << 8) | buf[6] as u64;
            }
            if n > 7 {
                v = (v << 8) | buf[7] as u64;
            }
            self.hit(0, n, v);
            self.hit(1, n, v);
            self.hit(2, n, v);
            self.hit(3, n, v);
            self.hit(4, n, v);
            self.hit(5, n, v);
            self.hit(6, n, v);
            self.hit(7, n, v);
        }
        self.pos += buf.len() as u64;
        if self.pos > self.end {
            self.end = self.pos;
        }
        Ok(buf.len())
    }
    fn write_all(&mut self, buf: &[u8]) -> io::Result<()> {
        self.write(buf).map(|_| ())
    }
    fn flush(&mut self) -> io::Result<()> {
        Ok(())
    }
}

impl Seek for Sparse {
    fn seek(&mut self, to: SeekFrom) -> io::Result<u64> {
        match to {
            SeekFrom::Start(p) => self.pos = p,
            SeekFrom::Current(d) => self.pos = (self.pos as i64 + d) as u64,
            SeekFrom::End(d) => self.pos = (self.end as i64 + d) as u64,
        }
        if self.pos > self.end {
            self.end = self.pos;
        }
        Ok(self.pos)
    }
    fn stream_position(&mut self) -> io::Result<u64> {
        Ok(self.pos)
    }
}

// ---------------------------------------------------------------- C10: faults on the write side
use std::io::Cursor;

#[derive(Clone, Copy, PartialEq, Eq)]
pub enum Fault {
    Error,
    ZeroWrite,
}

/// The k-th stream call (write / seek / flush, counted together from 0) fails: with an I/O error, or
/// -- for a write -- by accepting zero bytes.
pub struct FailW<'a> {
    pub inner: Cursor<&'a mut [u8]>,
    pub k: u32,
    pub calls: u32,
    pub fault: Fault,
    pub fired: bool,
}
pub fn fail_w(b: &mut [u8], k: u32, fault: Fault) -> FailW<'_> {
    FailW { inner: Cursor::new(b), k, calls: 0, fault, fired: false }
}
impl<'a> Write for FailW<'a> {
    fn write(&mut self, buf: &[u8]) -> io::Result<usize> {
        let n = self.calls;
        self.calls += 1;
        if n == self.k && !buf.is_empty() {
            self.fired = true;
            return match self.fault {
                Fault::Error => Err(io::Error::from(io::ErrorKind::Other)),
                Fault::ZeroWrite => Ok(0),
            };
        }
        self.inner.write(buf)
    }
    fn flush(&mut self) -> io::Result<()> {
        Ok(())
    }
}
impl<'a> Seek for FailW<'a> {
    fn seek(&mut self, pos: SeekFrom) -> io::Result<u64> {
        let n = self.calls;
        self.calls += 1;
        if n == self.k && self.fault == Fault::Error {
            self.fired = true;
            return Err(io::Error::from(io::ErrorKind::Other));
        }
        self.inner.seek(pos)
    }
    fn stream_position(&mut self) -> io::Result<u64> {
        Ok(self.inner.position())
    }
}

/// A writer that accepts at most `c` bytes per `write` call and reports one interrupted call;
/// `write_all` is not overridden.
pub struct ChunkedW<'a> {
    pub inner: Cursor<&'a mut [u8]>,
    pub c: usize,
    pub interrupt_at: u32,
    pub calls: u32,
}
pub fn chunked_w(b: &mut [u8], c: usize, interrupt_at: u32) -> ChunkedW<'_> {
    ChunkedW { inner: Cursor::new(b), c, interrupt_at, calls: 0 }
}
impl<'a> Write for ChunkedW<'a> {
    fn write(&mut self, buf: &[u8]) -> io::Result<usize> {
        let n = self.calls;
        self.calls += 1;
        if n == self.interrupt_at {
            return Err(io::Error::from(io::ErrorKind::Interrupted));
        }
        let m = if buf.len() > self.c { self.c } else { buf.len() };
        self.inner.write(&buf[..m])
    }
    fn flush(&mut self) -> io::Result<()> {
        Ok(())
    }
}
impl<'a> Seek for ChunkedW<'a> {
    fn seek(&mut self, pos: SeekFrom) -> io::Result<u64> {
        self.inner.seek(pos)
    }
}
