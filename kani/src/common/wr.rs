//! Harness-side output streams.
use std::io::{self, Seek, SeekFrom, Write};

/// A sparse, position-only `Write + Seek`: it tracks the absolute stream position (a u64 that may
/// be symbolic: the start offset and any gap the harness seeks over are `kani::any()` values) and
/// remembers only the bytes that fall into two small windows whose absolute bases are set by the
/// harness. Everything else written is dropped: it stands for payload. This is how the 4 GiB
/// boundaries are reached without 4 GiB of data.
pub struct Sparse {
    pub pos: u64,
    pub end: u64,
    pub a_base: u64,
    pub a: [u8; 64],
    pub b_base: u64,
    pub b: [u8; 32],
    pub writes: u32,
}

impl Sparse {
    pub fn new(start: u64) -> Self {
        Sparse { pos: start, end: start, a_base: start, a: [0; 64], b_base: u64::MAX, b: [0; 32], writes: 0 }
    }
    pub fn get(&self, abs: u64) -> Option<u8> {
        if abs >= self.a_base && abs - self.a_base < 64 {
            Some(self.a[(abs - self.a_base) as usize])
        } else if abs >= self.b_base && abs - self.b_base < 32 {
            Some(self.b[(abs - self.b_base) as usize])
        } else {
            None
        }
    }
    pub fn get32(&self, abs: u64) -> Option<u32> {
        Some(((self.get(abs)? as u32) << 24) | ((self.get(abs + 1)? as u32) << 16) | ((self.get(abs + 2)? as u32) << 8) | self.get(abs + 3)? as u32)
    }
    pub fn get64(&self, abs: u64) -> Option<u64> {
        Some(((self.get32(abs)? as u64) << 32) | self.get32(abs + 4)? as u64)
    }
}

impl Write for Sparse {
    fn write(&mut self, buf: &[u8]) -> io::Result<usize> {
        self.writes += 1;
        let mut i = 0;
        while i < buf.len() {
            let abs = self.pos + i as u64;
            if abs >= self.a_base && abs - self.a_base < 64 {
                self.a[(abs - self.a_base) as usize] = buf[i];
            } else if abs >= self.b_base && abs - self.b_base < 32 {
                self.b[(abs - self.b_base) as usize] = buf[i];
            }
            i += 1;
        }
        self.pos += buf.len() as u64;
        if self.pos > self.end {
            self.end = self.pos;
        }
        Ok(buf.len())
    }
    fn write_all(&mut self, buf: &[u8]) -> io::Result<()> {
        self.write(buf).map(|_| ())
    }
    fn flush(&mut self) -> io::Result<()> {
        Ok(())
    }
}

impl Seek for Sparse {
    fn seek(&mut self, to: SeekFrom) -> io::Result<u64> {
        match to {
            SeekFrom::Start(p) => self.pos = p,
            SeekFrom::Current(d) => self.pos = (self.pos as i64 + d) as u64,
            SeekFrom::End(d) => self.pos = (self.end as i64 + d) as u64,
        }
        if self.pos > self.end {
            self.end = self.pos;
        }
        Ok(self.pos)
    }
    fn stream_position(&mut self) -> io::Result<u64> {
        Ok(self.pos)
    }
}
