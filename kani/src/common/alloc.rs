//! C08: checking allocator stubs. With `-Z stubbing`, `std::alloc::{alloc, alloc_zeroed, realloc}` --
//! the three functions every Vec / String / Box / Bytes allocation of the crate goes through -- are
//! replaced by these: each asserts the requested size against the limit the harness set, adds it
//! to a running total, and then really allocates through the system allocator model.
use std::alloc::Layout;

static mut LIMIT: usize = usize::MAX;
static mut TOTAL: usize = 0;
static mut REQUESTS: usize = 0;

pub fn set_limit(limit: usize) {
    unsafe {
        LIMIT = limit;
        TOTAL = 0;
        REQUESTS = 0;
    }
}
pub fn total() -> usize {
    unsafe { TOTAL }
}
pub fn requests() -> usize {
    unsafe { REQUESTS }
}

fn record(size: usize) {
    unsafe {
        assert!(size <= LIMIT, "C08 a single allocation request is bounded by a linear function of the input length");
        TOTAL = TOTAL.saturating_add(size);
        REQUESTS += 1;
    }
}

// The stubs allocate exactly the way Kani's own models of __rust_alloc / __rust_alloc_zeroed /
// __rust_realloc do (kani_lib.c: malloc, calloc(1, size), malloc + memcpy + free), so that the
// memory model -- and what __rust_dealloc later checks about object sizes -- is the one of the
// un-stubbed program. (Going through std's `System` allocator instead made the verdict of one
// harness depend on the directory the crate under test was built from.)
extern "C" {
    fn malloc(size: usize) -> *mut u8;
    fn calloc(n: usize, size: usize) -> *mut u8;
    fn free(p: *mut u8);
}

pub unsafe fn alloc_stub(layout: Layout) -> *mut u8 {
    record(layout.size());
    malloc(layout.size())
}
pub unsafe fn alloc_zeroed_stub(layout: Layout) -> *mut u8 {
    record(layout.size());
    calloc(1, layout.size())
}
pub unsafe fn realloc_stub(ptr: *mut u8, layout: Layout, new_size: usize) -> *mut u8 {
    record(new_size);
    let result = malloc(new_size);
    if !result.is_null() {
        let n = if new_size < layout.size() { new_size } else { layout.size() };
        std::ptr::copy_nonoverlapping(ptr, result, n);
        free(ptr);
    }
    result
}
