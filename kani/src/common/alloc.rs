//! C08: checking allocator stubs. With `-Z stubbing`, `std::alloc::{alloc, alloc_zeroed, realloc}` --
//! the three functions every Vec / String / Box / Bytes allocation of the crate goes through -- are
//! replaced by these: each asserts the requested size against the limit the harness set, adds it
//! to a running total, and then really allocates through the system allocator model.
use std::alloc::{GlobalAlloc, Layout, System};

static mut LIMIT: usize = usize::MAX;
static mut TOTAL: usize = 0;
static mut REQUESTS: usize = 0;

pub fn set_limit(limit: usize) {
    unsafe {
        LIMIT = limit;
        TOTAL = 0;
        REQUESTS = 0;
    }
}
pub fn total() -> usize {
    unsafe { TOTAL }
}
pub fn requests() -> usize {
    unsafe { REQUESTS }
}

fn record(size: usize) {
    unsafe {
        assert!(size <= LIMIT, "C08 a single allocation request is bounded by a linear function of the input length");
        TOTAL = TOTAL.saturating_add(size);
        REQUESTS += 1;
    }
}

pub unsafe fn alloc_stub(layout: Layout) -> *mut u8 {
    record(layout.size());
    System.alloc(layout)
}
pub unsafe fn alloc_zeroed_stub(layout: Layout) -> *mut u8 {
    record(layout.size());
    System.alloc_zeroed(layout)
}
pub unsafe fn realloc_stub(ptr: *mut u8, layout: Layout, new_size: usize) -> *mut u8 {
    record(new_size);
    System.realloc(ptr, layout, new_size)
}
