//! Per box type: `any_*` = a value of concrete *shape* whose every field is symbolic within its wire
//! width ("representable"), and `ref_*` = an independent reference encoder written from the
//! ISO/IEC 14496-12 / -14 / -15 / -1 / -3 layouts, 3GPP TS 26.245 (tx3g), the VP9 ISOBMFF binding
//! (vpcC) and the iTunes metadata conventions (data). `ref_*` writes into a zero-initialised array
//! through `RefW` and never calls into `mp4` (it only reads the public fields of the value).
use super::refw::RefW;
use mp4::verif_hooks::*;
use mp4::*;

pub fn any_flags24() -> u32 {
    let f: u32 = kani::any();
    kani::assume(f < (1 << 24));
    f
}

/// `len` symbolic ASCII bytes without NUL, as a String (no UTF-8 validation needed for ASCII).
pub fn any_ascii<const L: usize>() -> String {
    let b: [u8; L] = kani::any();
    let mut i = 0;
    while i < L {
        kani::assume(b[i] >= 1 && b[i] < 0x80);
        i += 1;
    }
    unsafe { String::from_utf8_unchecked(b.to_vec()) }
}

pub fn any_time(version: u8) -> u64 {
    let t: u64 = kani::any();
    if version == 0 {
        kani::assume(t <= u32::MAX as u64);
    }
    t
}

pub fn any_matrix() -> Matrix {
    Matrix { a: kani::any(), b: kani::any(), u: kani::any(), c: kani::any(), d: kani::any(), v: kani::any(), x: kani::any(), y: kani::any(), w: kani::any() }
}

fn ref_matrix(w: &mut RefW, m: &Matrix) {
    w.i32(m.a);
    w.i32(m.b);
    w.i32(m.u);
    w.i32(m.c);
    w.i32(m.d);
    w.i32(m.v);
    w.i32(m.x);
    w.i32(m.y);
    w.i32(m.w);
}

// ------------------------------------------------------------------ ftyp (14496-12 4.3)
pub fn any_ftyp<const B: usize>() -> FtypBox {
    let brands: [[u8; 4]; B] = kani::any();
    let mut v = FtypBox { major_brand: FourCC::from(kani::any::<[u8; 4]>()), minor_version: kani::any(), compatible_brands: Vec::new() };
    let mut i = 0;
    while i < B {
        v.compatible_brands.push(FourCC::from(brands[i]));
        i += 1;
    }
    v
}
pub fn ref_ftyp(v: &FtypBox, out: &mut [u8]) -> usize {
    let mut w = RefW::new(out);
    let s = w.begin(b"ftyp");
    w.cc(&v.major_brand.value);
    w.u32(v.minor_version);
    let mut i = 0;
    while i < v.compatible_brands.len() {
        w.cc(&v.compatible_brands[i].value);
        i += 1;
    }
    w.end(s);
    w.p
}

// ------------------------------------------------------------------ mvhd (8.2.2)
pub fn any_mvhd(version: u8) -> MvhdBox {
    MvhdBox {
        version,
        flags: any_flags24(),
        creation_time: any_time(version),
        modification_time: any_time(version),
        timescale: kani::any(),
        duration: any_time(version),
        rate: FixedPointU16::new_raw(kani::any()),
        volume: FixedPointU8::new_raw(kani::any()),
        matrix: any_matrix(),
        next_track_id: kani::any(),
    }
}
pub fn ref_mvhd(v: &MvhdBox, out: &mut [u8]) -> usize {
    let mut w = RefW::new(out);
    ref_mvhd_w(v, &mut w);
    w.p
}
pub fn ref_mvhd_w(v: &MvhdBox, w: &mut RefW) {
    let s = w.begin_full(b"mvhd", v.version, v.flags);
    if v.version == 1 {
        w.u64(v.creation_time);
        w.u64(v.modification_time);
        w.u32(v.timescale);
        w.u64(v.duration);
    } else {
        w.u32(v.creation_time as u32);
        w.u32(v.modification_time as u32);
        w.u32(v.timescale);
        w.u32(v.duration as u32);
    }
    w.u32(v.rate.raw_value());
    w.u16(v.volume.raw_value());
    w.zeros(2 + 8);
    ref_matrix(w, &v.matrix);
    w.zeros(24);
    w.u32(v.next_track_id);
    w.end(s);
}

// ------------------------------------------------------------------ tkhd (8.3.2)
pub fn any_tkhd(version: u8) -> TkhdBox {
    TkhdBox {
        version,
        flags: any_flags24(),
        creation_time: any_time(version),
        modification_time: any_time(version),
        track_id: kani::any(),
        duration: any_time(version),
        layer: kani::any(),
        alternate_group: kani::any(),
        volume: FixedPointU8::new_raw(kani::any()),
        matrix: any_matrix(),
        width: FixedPointU16::new_raw(kani::any()),
        height: FixedPointU16::new_raw(kani::any()),
    }
}
pub fn ref_tkhd(v: &TkhdBox, out: &mut [u8]) -> usize {
    let mut w = RefW::new(out);
    let s = w.begin_full(b"tkhd", v.version, v.flags);
    if v.version == 1 {
        w.u64(v.creation_time);
        w.u64(v.modification_time);
        w.u32(v.track_id);
        w.zeros(4);
        w.u64(v.duration);
    } else {
        w.u32(v.creation_time as u32);
        w.u32(v.modification_time as u32);
        w.u32(v.track_id);
        w.zeros(4);
        w.u32(v.duration as u32);
    }
    w.zeros(8);
    w.u16(v.layer);
    w.u16(v.alternate_group);
    w.u16(v.volume.raw_value());
    w.zeros(2);
    ref_matrix(&mut w, &v.matrix);
    w.u32(v.width.raw_value());
    w.u32(v.height.raw_value());
    w.end(s);
    w.p
}

// ------------------------------------------------------------------ mdhd (8.4.2)
/// language: three bytes, each 0x60 + a 5-bit field (the representable set)
pub fn any_mdhd(version: u8) -> MdhdBox {
    let l: [u8; 3] = kani::any();
    kani::assume(l[0] >= 0x60 && l[0] < 0x80 && l[1] >= 0x60 && l[1] < 0x80 && l[2] >= 0x60 && l[2] < 0x80);
    MdhdBox {
        version,
        flags: any_flags24(),
        creation_time: any_time(version),
        modification_time: any_time(version),
        timescale: kani::any(),
        duration: any_time(version),
        language: unsafe { String::from_utf8_unchecked(l.to_vec()) },
    }
}
pub fn ref_mdhd(v: &MdhdBox, out: &mut [u8]) -> usize {
    let mut w = RefW::new(out);
    let s = w.begin_full(b"mdhd", v.version, v.flags);
    if v.version == 1 {
        w.u64(v.creation_time);
        w.u64(v.modification_time);
        w.u32(v.timescale);
        w.u64(v.duration);
    } else {
        w.u32(v.creation_time as u32);
        w.u32(v.modification_time as u32);
        w.u32(v.timescale);
        w.u32(v.duration as u32);
    }
    let l = v.language.as_bytes();
    // pad bit 0, then three 5-bit letters (letter - 0x60)
    w.u16((((l[0] - 0x60) as u16) << 10) | (((l[1] - 0x60) as u16) << 5) | ((l[2] - 0x60) as u16));
    w.zeros(2);
    w.end(s);
    w.p
}

// ------------------------------------------------------------------ hdlr (8.4.3)
pub fn any_hdlr<const L: usize>() -> HdlrBox {
    HdlrBox { version: kani::any(), flags: any_flags24(), handler_type: FourCC::from(kani::any::<[u8; 4]>()), name: any_ascii::<L>() }
}
pub fn ref_hdlr(v: &HdlrBox, out: &mut [u8]) -> usize {
    let mut w = RefW::new(out);
    ref_hdlr_w(v, &mut w);
    w.p
}
pub fn ref_hdlr_w(v: &HdlrBox, w: &mut RefW) {
    let s = w.begin_full(b"hdlr", v.version, v.flags);
    w.zeros(4);
    w.cc(&v.handler_type.value);
    w.zeros(12);
    w.bytes(v.name.as_bytes());
    w.u8(0);
    w.end(s);
}

// ------------------------------------------------------------------ vmhd / smhd (12.1.2, 12.2.2)
pub fn any_vmhd() -> VmhdBox {
    VmhdBox { version: kani::any(), flags: any_flags24(), graphics_mode: kani::any(), op_color: RgbColor { red: kani::any(), green: kani::any(), blue: kani::any() } }
}
pub fn ref_vmhd(v: &VmhdBox, out: &mut [u8]) -> usize {
    let mut w = RefW::new(out);
    let s = w.begin_full(b"vmhd", v.version, v.flags);
    w.u16(v.graphics_mode);
    w.u16(v.op_color.red);
    w.u16(v.op_color.green);
    w.u16(v.op_color.blue);
    w.end(s);
    w.p
}
pub fn any_smhd() -> SmhdBox {
    SmhdBox { version: kani::any(), flags: any_flags24(), balance: FixedPointI8::new_raw(kani::any()) }
}
pub fn ref_smhd(v: &SmhdBox, out: &mut [u8]) -> usize {
    let mut w = RefW::new(out);
    let s = w.begin_full(b"smhd", v.version, v.flags);
    w.i16(v.balance.raw_value());
    w.zeros(2);
    w.end(s);
    w.p
}

// ------------------------------------------------------------------ sample tables (8.6, 8.7)
pub fn any_stts<const E: usize>() -> SttsBox {
    let mut v = SttsBox { version: kani::any(), flags: any_flags24(), entries: Vec::new() };
    let mut i = 0;
    while i < E {
        v.entries.push(SttsEntry { sample_count: kani::any(), sample_delta: kani::any() });
        i += 1;
    }
    v
}
pub fn ref_stts(v: &SttsBox, out: &mut [u8]) -> usize {
    let mut w = RefW::new(out);
    let s = w.begin_full(b"stts", v.version, v.flags);
    w.u32(v.entries.len() as u32);
    let mut i = 0;
    while i < v.entries.len() {
        w.u32(v.entries[i].sample_count);
        w.u32(v.entries[i].sample_delta);
        i += 1;
    }
    w.end(s);
    w.p
}
pub fn any_ctts<const E: usize>() -> CttsBox {
    let mut v = CttsBox { version: kani::any(), flags: any_flags24(), entries: Vec::new() };
    let mut i = 0;
    while i < E {
        v.entries.push(CttsEntry { sample_count: kani::any(), sample_offset: kani::any() });
        i += 1;
    }
    v
}
pub fn ref_ctts(v: &CttsBox, out: &mut [u8]) -> usize {
    let mut w = RefW::new(out);
    let s = w.begin_full(b"ctts", v.version, v.flags);
    w.u32(v.entries.len() as u32);
    let mut i = 0;
    while i < v.entries.len() {
        w.u32(v.entries[i].sample_count);
        w.i32(v.entries[i].sample_offset);
        i += 1;
    }
    w.end(s);
    w.p
}
pub fn any_stss<const E: usize>() -> StssBox {
    let e: [u32; E] = kani::any();
    StssBox { version: kani::any(), flags: any_flags24(), entries: e.to_vec() }
}
pub fn ref_stss(v: &StssBox, out: &mut [u8]) -> usize {
    let mut w = RefW::new(out);
    let s = w.begin_full(b"stss", v.version, v.flags);
    w.u32(v.entries.len() as u32);
    let mut i = 0;
    while i < v.entries.len() {
        w.u32(v.entries[i]);
        i += 1;
    }
    w.end(s);
    w.p
}
/// stsc: first_sample is derived by the decoder (8.7.4 semantics): the reference value is
/// 1 + sum over earlier runs of (next.first_chunk - first_chunk) * samples_per_chunk. The values are
/// assumed small enough for that sum not to overflow u32 (otherwise the decoder rejects the box).
pub fn any_stsc<const E: usize>() -> StscBox {
    let mut v = StscBox { version: kani::any(), flags: any_flags24(), entries: Vec::new() };
    let mut first_sample: u32 = 1;
    let mut prev_chunk: u32 = 0;
    let mut prev_spc: u32 = 0;
    let mut i = 0;
    while i < E {
        let first_chunk: u32 = kani::any();
        let spc: u32 = kani::any();
        kani::assume(first_chunk < (1 << 12) && spc < (1 << 12));
        if i > 0 {
            kani::assume(first_chunk >= prev_chunk);
            first_sample += (first_chunk - prev_chunk) * prev_spc;
        }
        v.entries.push(StscEntry { first_chunk, samples_per_chunk: spc, sample_description_index: kani::any(), first_sample });
        prev_chunk = first_chunk;
        prev_spc = spc;
        i += 1;
    }
    v
}
pub fn ref_stsc(v: &StscBox, out: &mut [u8]) -> usize {
    let mut w = RefW::new(out);
    let s = w.begin_full(b"stsc", v.version, v.flags);
    w.u32(v.entries.len() as u32);
    let mut i = 0;
    while i < v.entries.len() {
        w.u32(v.entries[i].first_chunk);
        w.u32(v.entries[i].samples_per_chunk);
        w.u32(v.entries[i].sample_description_index);
        i += 1;
    }
    w.end(s);
    w.p
}
/// stsz: constant mode (sample_size > 0, no table, any count) or table mode (sample_size == 0,
/// E sizes, count == E)
pub fn any_stsz<const E: usize>(constant: bool) -> StszBox {
    let e: [u32; E] = kani::any();
    if constant {
        let sz: u32 = kani::any();
        kani::assume(sz > 0);
        StszBox { version: kani::any(), flags: any_flags24(), sample_size: sz, sample_count: kani::any(), sample_sizes: Vec::new() }
    } else {
        StszBox { version: kani::any(), flags: any_flags24(), sample_size: 0, sample_count: E as u32, sample_sizes: e.to_vec() }
    }
}
pub fn ref_stsz(v: &StszBox, out: &mut [u8]) -> usize {
    let mut w = RefW::new(out);
    let s = w.begin_full(b"stsz", v.version, v.flags);
    w.u32(v.sample_size);
    w.u32(v.sample_count);
    if v.sample_size == 0 {
        let mut i = 0;
        while i < v.sample_sizes.len() {
            w.u32(v.sample_sizes[i]);
            i += 1;
        }
    }
    w.end(s);
    w.p
}
pub fn any_stco<const E: usize>() -> StcoBox {
    let e: [u32; E] = kani::any();
    StcoBox { version: kani::any(), flags: any_flags24(), entries: e.to_vec() }
}
pub fn ref_stco(v: &StcoBox, out: &mut [u8]) -> usize {
    let mut w = RefW::new(out);
    let s = w.begin_full(b"stco", v.version, v.flags);
    w.u32(v.entries.len() as u32);
    let mut i = 0;
    while i < v.entries.len() {
        w.u32(v.entries[i]);
        i += 1;
    }
    w.end(s);
    w.p
}
pub fn any_co64<const E: usize>() -> Co64Box {
    let e: [u64; E] = kani::any();
    Co64Box { version: kani::any(), flags: any_flags24(), entries: e.to_vec() }
}
pub fn ref_co64(v: &Co64Box, out: &mut [u8]) -> usize {
    let mut w = RefW::new(out);
    let s = w.begin_full(b"co64", v.version, v.flags);
    w.u32(v.entries.len() as u32);
    let mut i = 0;
    while i < v.entries.len() {
        w.u64(v.entries[i]);
        i += 1;
    }
    w.end(s);
    w.p
}

// ------------------------------------------------------------------ elst (8.6.6)
pub fn any_elst<const E: usize>(version: u8) -> ElstBox {
    let mut v = ElstBox { version, flags: any_flags24(), entries: Vec::new() };
    let mut i = 0;
    while i < E {
        v.entries.push(ElstEntry { segment_duration: any_time(version), media_time: any_time(version), media_rate: kani::any(), media_rate_fraction: kani::any() });
        i += 1;
    }
    v
}
pub fn ref_elst(v: &ElstBox, out: &mut [u8]) -> usize {
    let mut w = RefW::new(out);
    ref_elst_w(v, &mut w);
    w.p
}
pub fn ref_elst_w(v: &ElstBox, w: &mut RefW) {
    let s = w.begin_full(b"elst", v.version, v.flags);
    w.u32(v.entries.len() as u32);
    let mut i = 0;
    while i < v.entries.len() {
        let e = &v.entries[i];
        if v.version == 1 {
            w.u64(e.segment_duration);
            w.u64(e.media_time);
        } else {
            w.u32(e.segment_duration as u32);
            w.u32(e.media_time as u32);
        }
        w.u16(e.media_rate);
        w.u16(e.media_rate_fraction);
        i += 1;
    }
    w.end(s);
}

// ------------------------------------------------------------------ movie extends / fragments (8.8)
pub fn any_mehd(version: u8) -> MehdBox {
    MehdBox { version, flags: any_flags24(), fragment_duration: any_time(version) }
}
pub fn ref_mehd_w(v: &MehdBox, w: &mut RefW) {
    let s = w.begin_full(b"mehd", v.version, v.flags);
    if v.version == 1 {
        w.u64(v.fragment_duration);
    } else {
        w.u32(v.fragment_duration as u32);
    }
    w.end(s);
}
pub fn ref_mehd(v: &MehdBox, out: &mut [u8]) -> usize {
    let mut w = RefW::new(out);
    ref_mehd_w(v, &mut w);
    w.p
}
pub fn any_trex() -> TrexBox {
    TrexBox {
        version: kani::any(),
        flags: any_flags24(),
        track_id: kani::any(),
        default_sample_description_index: kani::any(),
        default_sample_duration: kani::any(),
        default_sample_size: kani::any(),
        default_sample_flags: kani::any(),
    }
}
pub fn ref_trex_w(v: &TrexBox, w: &mut RefW) {
    let s = w.begin_full(b"trex", v.version, v.flags);
    w.u32(v.track_id);
    w.u32(v.default_sample_description_index);
    w.u32(v.default_sample_duration);
    w.u32(v.default_sample_size);
    w.u32(v.default_sample_flags);
    w.end(s);
}
pub fn ref_trex(v: &TrexBox, out: &mut [u8]) -> usize {
    let mut w = RefW::new(out);
    ref_trex_w(v, &mut w);
    w.p
}
pub fn any_mfhd() -> MfhdBox {
    MfhdBox { version: kani::any(), flags: any_flags24(), sequence_number: kani::any() }
}
pub fn ref_mfhd_w(v: &MfhdBox, w: &mut RefW) {
    let s = w.begin_full(b"mfhd", v.version, v.flags);
    w.u32(v.sequence_number);
    w.end(s);
}
pub fn ref_mfhd(v: &MfhdBox, out: &mut [u8]) -> usize {
    let mut w = RefW::new(out);
    ref_mfhd_w(v, &mut w);
    w.p
}
/// tfhd: `opt` = which optional fields are present (bits 0x01 0x02 0x08 0x10 0x20); the two
/// information-only flags (0x10000, 0x20000) are symbolic.
pub fn any_tfhd(opt: u32) -> TfhdBox {
    let info: u32 = kani::any();
    kani::assume(info & !0x030000 == 0);
    TfhdBox {
        version: kani::any(),
        flags: opt | info,
        track_id: kani::any(),
        base_data_offset: if opt & 0x01 != 0 { Some(kani::any()) } else { None },
        sample_description_index: if opt & 0x02 != 0 { Some(kani::any()) } else { None },
        default_sample_duration: if opt & 0x08 != 0 { Some(kani::any()) } else { None },
        default_sample_size: if opt & 0x10 != 0 { Some(kani::any()) } else { None },
        default_sample_flags: if opt & 0x20 != 0 { Some(kani::any()) } else { None },
    }
}
pub fn ref_tfhd_w(v: &TfhdBox, w: &mut RefW) {
    let s = w.begin_full(b"tfhd", v.version, v.flags);
    w.u32(v.track_id);
    if v.flags & 0x01 != 0 {
        w.u64(v.base_data_offset.unwrap_or(0));
    }
    if v.flags & 0x02 != 0 {
        w.u32(v.sample_description_index.unwrap_or(0));
    }
    if v.flags & 0x08 != 0 {
        w.u32(v.default_sample_duration.unwrap_or(0));
    }
    if v.flags & 0x10 != 0 {
        w.u32(v.default_sample_size.unwrap_or(0));
    }
    if v.flags & 0x20 != 0 {
        w.u32(v.default_sample_flags.unwrap_or(0));
    }
    w.end(s);
}
pub fn ref_tfhd(v: &TfhdBox, out: &mut [u8]) -> usize {
    let mut w = RefW::new(out);
    ref_tfhd_w(v, &mut w);
    w.p
}
pub fn any_tfdt(version: u8) -> TfdtBox {
    TfdtBox { version, flags: any_flags24(), base_media_decode_time: any_time(version) }
}
pub fn ref_tfdt_w(v: &TfdtBox, w: &mut RefW) {
    let s = w.begin_full(b"tfdt", v.version, v.flags);
    if v.version == 1 {
        w.u64(v.base_media_decode_time);
    } else {
        w.u32(v.base_media_decode_time as u32);
    }
    w.end(s);
}
pub fn ref_tfdt(v: &TfdtBox, out: &mut [u8]) -> usize {
    let mut w = RefW::new(out);
    ref_tfdt_w(v, &mut w);
    w.p
}
/// trun: `opt` = flag bits 0x001 0x004 0x100 0x200 0x400 0x800, N samples. Per-sample vectors are
/// present (length N) exactly for the flagged fields.
pub fn any_trun<const N: usize>(opt: u32) -> TrunBox {
    let d: [u32; N] = kani::any();
    let z: [u32; N] = kani::any();
    let f: [u32; N] = kani::any();
    let c: [u32; N] = kani::any();
    TrunBox {
        version: kani::any(),
        flags: opt,
        sample_count: N as u32,
        data_offset: if opt & 0x001 != 0 { Some(kani::any()) } else { None },
        first_sample_flags: if opt & 0x004 != 0 { Some(kani::any()) } else { None },
        sample_durations: if opt & 0x100 != 0 { d.to_vec() } else { Vec::new() },
        sample_sizes: if opt & 0x200 != 0 { z.to_vec() } else { Vec::new() },
        sample_flags: if opt & 0x400 != 0 { f.to_vec() } else { Vec::new() },
        sample_cts: if opt & 0x800 != 0 { c.to_vec() } else { Vec::new() },
    }
}
pub fn ref_trun_w(v: &TrunBox, w: &mut RefW) {
    let s = w.begin_full(b"trun", v.version, v.flags);
    w.u32(v.sample_count);
    if v.flags & 0x001 != 0 {
        w.i32(v.data_offset.unwrap_or(0));
    }
    if v.flags & 0x004 != 0 {
        w.u32(v.first_sample_flags.unwrap_or(0));
    }
    let mut i = 0;
    while i < v.sample_count as usize {
        if v.flags & 0x100 != 0 {
            w.u32(v.sample_durations[i]);
        }
        if v.flags & 0x200 != 0 {
            w.u32(v.sample_sizes[i]);
        }
        if v.flags & 0x400 != 0 {
            w.u32(v.sample_flags[i]);
        }
        if v.flags & 0x800 != 0 {
            w.u32(v.sample_cts[i]);
        }
        i += 1;
    }
    w.end(s);
}
pub fn ref_trun(v: &TrunBox, out: &mut [u8]) -> usize {
    let mut w = RefW::new(out);
    ref_trun_w(v, &mut w);
    w.p
}

// ------------------------------------------------------------------ emsg (ISO/IEC 23009-1 5.10.3.3)
pub fn any_emsg<const S: usize, const V: usize, const M: usize>(version: u8) -> EmsgBox {
    let m: [u8; M] = kani::any();
    EmsgBox {
        version,
        flags: any_flags24(),
        timescale: kani::any(),
        presentation_time: if version == 1 { Some(kani::any()) } else { None },
        presentation_time_delta: if version == 0 { Some(kani::any()) } else { None },
        event_duration: kani::any(),
        id: kani::any(),
        scheme_id_uri: any_ascii::<S>(),
        value: any_ascii::<V>(),
        message_data: m.to_vec(),
    }
}
/// emsg whose strings are concrete and not ASCII-only (bytes != chars): scheme_id_uri = "\u{e9}a"
/// (3 bytes, 2 chars), value = "b"; every other field and the M message bytes symbolic. Concrete
/// strings keep string handling (CStr, UTF-8 validation, any char counting) constant-foldable.
pub fn any_emsg_utf8<const M: usize>(version: u8) -> EmsgBox {
    let mut v = any_emsg::<0, 0, M>(version);
    v.scheme_id_uri = String::from("\u{e9}a");
    v.value = String::from("b");
    v
}

pub fn ref_emsg(v: &EmsgBox, out: &mut [u8]) -> usize {
    let mut w = RefW::new(out);
    let s = w.begin_full(b"emsg", v.version, v.flags);
    if v.version == 1 {
        w.u32(v.timescale);
        w.u64(v.presentation_time.unwrap_or(0));
        w.u32(v.event_duration);
        w.u32(v.id);
        w.bytes(v.scheme_id_uri.as_bytes());
        w.u8(0);
        w.bytes(v.value.as_bytes());
        w.u8(0);
    } else {
        w.bytes(v.scheme_id_uri.as_bytes());
        w.u8(0);
        w.bytes(v.value.as_bytes());
        w.u8(0);
        w.u32(v.timescale);
        w.u32(v.presentation_time_delta.unwrap_or(0));
        w.u32(v.event_duration);
        w.u32(v.id);
    }
    w.bytes(&v.message_data);
    w.end(s);
    w.p
}

// ------------------------------------------------------------------ data (iTunes metadata value atom)
pub fn any_datatype() -> DataType {
    let k: u8 = kani::any();
    kani::assume(k < 4);
    match k {
        0 => DataType::Binary,
        1 => DataType::Text,
        2 => DataType::Image,
        _ => DataType::TempoCpil,
    }
}
pub fn datatype_code(t: &DataType) -> u32 {
    match t {
        DataType::Binary => 0,
        DataType::Text => 1,
        DataType::Image => 13,
        DataType::TempoCpil => 21,
    }
}
pub fn any_data<const L: usize>() -> DataBox {
    let d: [u8; L] = kani::any();
    DataBox { data: d.to_vec(), data_type: any_datatype() }
}
pub fn ref_data_w(v: &DataBox, w: &mut RefW) {
    let s = w.begin(b"data");
    w.u32(datatype_code(&v.data_type));
    w.zeros(4);
    w.bytes(&v.data);
    w.end(s);
}
pub fn ref_data(v: &DataBox, out: &mut [u8]) -> usize {
    let mut w = RefW::new(out);
    ref_data_w(v, &mut w);
    w.p
}

// ------------------------------------------------------------------ url / dref (8.7.2)
pub fn any_url<const L: usize>() -> UrlBox {
    UrlBox { version: kani::any(), flags: any_flags24(), location: any_ascii::<L>() }
}
pub fn ref_url_w(v: &UrlBox, w: &mut RefW) {
    let s = w.begin_full(b"url ", v.version, v.flags);
    if !v.location.is_empty() {
        w.bytes(v.location.as_bytes());
        w.u8(0);
    }
    w.end(s);
}
pub fn ref_url(v: &UrlBox, out: &mut [u8]) -> usize {
    let mut w = RefW::new(out);
    ref_url_w(v, &mut w);
    w.p
}
pub fn any_dref<const L: usize>() -> DrefBox {
    DrefBox { version: kani::any(), flags: any_flags24(), url: Some(any_url::<L>()) }
}
pub fn ref_dref_w(v: &DrefBox, w: &mut RefW) {
    let s = w.begin_full(b"dref", v.version, v.flags);
    w.u32(1);
    if let Some(ref u) = v.url {
        ref_url_w(u, w);
    }
    w.end(s);
}
pub fn ref_dref(v: &DrefBox, out: &mut [u8]) -> usize {
    let mut w = RefW::new(out);
    ref_dref_w(v, &mut w);
    w.p
}

// ------------------------------------------------------------------ tx3g (3GPP TS 26.245 5.16)
pub fn any_tx3g() -> Tx3gBox {
    Tx3gBox {
        data_reference_index: kani::any(),
        display_flags: kani::any(),
        horizontal_justification: kani::any(),
        vertical_justification: kani::any(),
        bg_color_rgba: RgbaColor { red: kani::any(), green: kani::any(), blue: kani::any(), alpha: kani::any() },
        box_record: kani::any(),
        style_record: kani::any(),
    }
}
pub fn ref_tx3g_w(v: &Tx3gBox, w: &mut RefW) {
    let s = w.begin(b"tx3g");
    w.zeros(6);
    w.u16(v.data_reference_index);
    w.u32(v.display_flags);
    w.i8(v.horizontal_justification);
    w.i8(v.vertical_justification);
    w.u8(v.bg_color_rgba.red);
    w.u8(v.bg_color_rgba.green);
    w.u8(v.bg_color_rgba.blue);
    w.u8(v.bg_color_rgba.alpha);
    w.i16(v.box_record[0]);
    w.i16(v.box_record[1]);
    w.i16(v.box_record[2]);
    w.i16(v.box_record[3]);
    w.bytes(&v.style_record);
    w.end(s);
}
pub fn ref_tx3g(v: &Tx3gBox, out: &mut [u8]) -> usize {
    let mut w = RefW::new(out);
    ref_tx3g_w(v, &mut w);
    w.p
}

// ------------------------------------------------------------------ vpcC / vp09 (VP Codec ISO Media File Format Binding 1.0)
pub fn any_vpcc() -> VpccBox {
    let bit_depth: u8 = kani::any();
    let chroma: u8 = kani::any();
    kani::assume(bit_depth < 16 && chroma < 8);
    VpccBox {
        version: kani::any(),
        flags: any_flags24(),
        profile: kani::any(),
        level: kani::any(),
        bit_depth,
        chroma_subsampling: chroma,
        video_full_range_flag: kani::any(),
        color_primaries: kani::any(),
        transfer_characteristics: kani::any(),
        matrix_coefficients: kani::any(),
        codec_initialization_data_size: kani::any(),
    }
}
pub fn ref_vpcc_w(v: &VpccBox, w: &mut RefW) {
    let s = w.begin_full(b"vpcC", v.version, v.flags);
    w.u8(v.profile);
    w.u8(v.level);
    w.u8((v.bit_depth << 4) | (v.chroma_subsampling << 1) | (v.video_full_range_flag as u8));
    w.u8(v.color_primaries);
    w.u8(v.transfer_characteristics);
    w.u8(v.matrix_coefficients);
    w.u16(v.codec_initialization_data_size);
    w.end(s);
}
pub fn ref_vpcc(v: &VpccBox, out: &mut [u8]) -> usize {
    let mut w = RefW::new(out);
    ref_vpcc_w(v, &mut w);
    w.p
}
pub fn any_vp09() -> Vp09Box {
    Vp09Box {
        version: kani::any(),
        flags: any_flags24(),
        start_code: kani::any(),
        data_reference_index: kani::any(),
        reserved0: kani::any(),
        width: kani::any(),
        height: kani::any(),
        horizresolution: (kani::any(), kani::any()),
        vertresolution: (kani::any(), kani::any()),
        reserved1: kani::any(),
        frame_count: kani::any(),
        compressorname: kani::any(),
        depth: kani::any(),
        end_code: kani::any(),
        vpcc: any_vpcc(),
    }
}
/// VisualSampleEntry layout; the crate exposes the reserved/pre-defined bytes as fields
/// (version/flags/start_code = the 6 reserved bytes of SampleEntry, reserved0 = pre_defined +
/// reserved + pre_defined[3], reserved1 = reserved, end_code = pre_defined -1).
pub fn ref_vp09_w(v: &Vp09Box, w: &mut RefW) {
    let s = w.begin(b"vp09");
    w.u8(v.version);
    w.u24(v.flags);
    w.u16(v.start_code);
    w.u16(v.data_reference_index);
    w.bytes(&v.reserved0);
    w.u16(v.width);
    w.u16(v.height);
    w.u16(v.horizresolution.0);
    w.u16(v.horizresolution.1);
    w.u16(v.vertresolution.0);
    w.u16(v.vertresolution.1);
    w.bytes(&v.reserved1);
    w.u16(v.frame_count);
    w.bytes(&v.compressorname);
    w.u16(v.depth);
    w.u16(v.end_code);
    ref_vpcc_w(&v.vpcc, w);
    w.end(s);
}
pub fn ref_vp09(v: &Vp09Box, out: &mut [u8]) -> usize {
    let mut w = RefW::new(out);
    ref_vp09_w(v, &mut w);
    w.p
}

// ------------------------------------------------------------------ avcC / avc1 (14496-15 5.2.4.1, 5.3.4)
pub fn any_nal<const L: usize>() -> NalUnit {
    let b: [u8; L] = kani::any();
    NalUnit { bytes: b.to_vec() }
}
/// S sequence parameter sets of LS bytes, P picture parameter sets of LP bytes.
pub fn any_avcc<const S: usize, const LS: usize, const P: usize, const LP: usize>() -> AvcCBox {
    let lsm1: u8 = kani::any();
    kani::assume(lsm1 < 4);
    let mut v = AvcCBox {
        configuration_version: kani::any(),
        avc_profile_indication: kani::any(),
        profile_compatibility: kani::any(),
        avc_level_indication: kani::any(),
        length_size_minus_one: lsm1,
        sequence_parameter_sets: Vec::new(),
        picture_parameter_sets: Vec::new(),
    };
    let mut i = 0;
    while i < S {
        v.sequence_parameter_sets.push(any_nal::<LS>());
        i += 1;
    }
    let mut i = 0;
    while i < P {
        v.picture_parameter_sets.push(any_nal::<LP>());
        i += 1;
    }
    v
}
pub fn ref_avcc_w(v: &AvcCBox, w: &mut RefW) {
    let s = w.begin(b"avcC");
    w.u8(v.configuration_version);
    w.u8(v.avc_profile_indication);
    w.u8(v.profile_compatibility);
    w.u8(v.avc_level_indication);
    w.u8(0xFC | (v.length_size_minus_one & 3));
    w.u8(0xE0 | (v.sequence_parameter_sets.len() as u8 & 0x1F));
    let mut i = 0;
    while i < v.sequence_parameter_sets.len() {
        let n = &v.sequence_parameter_sets[i].bytes;
        w.u16(n.len() as u16);
        w.bytes(n);
        i += 1;
    }
    w.u8(v.picture_parameter_sets.len() as u8);
    let mut i = 0;
    while i < v.picture_parameter_sets.len() {
        let n = &v.picture_parameter_sets[i].bytes;
        w.u16(n.len() as u16);
        w.bytes(n);
        i += 1;
    }
    w.end(s);
}
pub fn ref_avcc(v: &AvcCBox, out: &mut [u8]) -> usize {
    let mut w = RefW::new(out);
    ref_avcc_w(v, &mut w);
    w.p
}
fn ref_visual_entry(w: &mut RefW, dri: u16, width: u16, height: u16, hres: u32, vres: u32, frame_count: u16, depth: u16) {
    w.zeros(6);
    w.u16(dri);
    w.zeros(2 + 2 + 12);
    w.u16(width);
    w.u16(height);
    w.u32(hres);
    w.u32(vres);
    w.zeros(4);
    w.u16(frame_count);
    w.zeros(32);
    w.u16(depth);
    w.u16(0xFFFF);
}
pub fn any_avc1<const S: usize, const LS: usize, const P: usize, const LP: usize>() -> Avc1Box {
    Avc1Box {
        data_reference_index: kani::any(),
        width: kani::any(),
        height: kani::any(),
        horizresolution: FixedPointU16::new_raw(kani::any()),
        vertresolution: FixedPointU16::new_raw(kani::any()),
        frame_count: kani::any(),
        depth: kani::any(),
        avcc: any_avcc::<S, LS, P, LP>(),
    }
}
pub fn ref_avc1_w(v: &Avc1Box, w: &mut RefW) {
    let s = w.begin(b"avc1");
    ref_visual_entry(w, v.data_reference_index, v.width, v.height, v.horizresolution.raw_value(), v.vertresolution.raw_value(), v.frame_count, v.depth);
    ref_avcc_w(&v.avcc, w);
    w.end(s);
}
pub fn ref_avc1(v: &Avc1Box, out: &mut [u8]) -> usize {
    let mut w = RefW::new(out);
    ref_avc1_w(v, &mut w);
    w.p
}

// ------------------------------------------------------------------ hvcC / hev1 (14496-15 8.3.3.1, 8.4.1)
/// A arrays, each with NU NAL units of LN bytes.
pub fn any_hvcc<const A: usize, const NU: usize, const LN: usize>() -> HvcCBox {
    let mut v = HvcCBox {
        configuration_version: kani::any(),
        general_profile_space: kani::any(),
        general_tier_flag: kani::any(),
        general_profile_idc: kani::any(),
        general_profile_compatibility_flags: kani::any(),
        general_constraint_indicator_flag: kani::any(),
        general_level_idc: kani::any(),
        min_spatial_segmentation_idc: kani::any(),
        parallelism_type: kani::any(),
        chroma_format_idc: kani::any(),
        bit_depth_luma_minus8: kani::any(),
        bit_depth_chroma_minus8: kani::any(),
        avg_frame_rate: kani::any(),
        constant_frame_rate: kani::any(),
        num_temporal_layers: kani::any(),
        temporal_id_nested: kani::any(),
        length_size_minus_one: kani::any(),
        arrays: Vec::new(),
    };
    kani::assume(v.general_profile_space < 4 && v.general_profile_idc < 32);
    kani::assume(v.general_constraint_indicator_flag < (1 << 48));
    kani::assume(v.min_spatial_segmentation_idc < (1 << 12));
    kani::assume(v.parallelism_type < 4 && v.chroma_format_idc < 4);
    kani::assume(v.bit_depth_luma_minus8 < 8 && v.bit_depth_chroma_minus8 < 8);
    kani::assume(v.constant_frame_rate < 4 && v.num_temporal_layers < 8 && v.length_size_minus_one < 4);
    let mut i = 0;
    while i < A {
        let t: u8 = kani::any();
        kani::assume(t < 64);
        let mut arr = HvcCArray { completeness: kani::any(), nal_unit_type: t, nalus: Vec::new() };
        let mut j = 0;
        while j < NU {
            let d: [u8; LN] = kani::any();
            arr.nalus.push(HvcCArrayNalu { size: LN as u16, data: d.to_vec() });
            j += 1;
        }
        v.arrays.push(arr);
        i += 1;
    }
    v
}
/// Reserved bits are written as ones where 14496-15 says so; the comparison in the C05 harness
/// masks them (`hvcc_reserved_mask`), since the property speaks about fields.
pub fn ref_hvcc_w(v: &HvcCBox, w: &mut RefW) {
    let s = w.begin(b"hvcC");
    w.u8(v.configuration_version);
    w.u8((v.general_profile_space << 6) | ((v.general_tier_flag as u8) << 5) | v.general_profile_idc);
    w.u32(v.general_profile_compatibility_flags);
    w.u48(v.general_constraint_indicator_flag);
    w.u8(v.general_level_idc);
    w.u16(0xF000 | v.min_spatial_segmentation_idc);
    w.u8(0xFC | v.parallelism_type);
    w.u8(0xFC | v.chroma_format_idc);
    w.u8(0xF8 | v.bit_depth_luma_minus8);
    w.u8(0xF8 | v.bit_depth_chroma_minus8);
    w.u16(v.avg_frame_rate);
    w.u8((v.constant_frame_rate << 6) | (v.num_temporal_layers << 3) | ((v.temporal_id_nested as u8) << 2) | v.length_size_minus_one);
    w.u8(v.arrays.len() as u8);
    let mut i = 0;
    while i < v.arrays.len() {
        let a = &v.arrays[i];
        w.u8(((a.completeness as u8) << 7) | a.nal_unit_type);
        w.u16(a.nalus.len() as u16);
        let mut j = 0;
        while j < a.nalus.len() {
            w.u16(a.nalus[j].size);
            w.bytes(&a.nalus[j].data);
            j += 1;
        }
        i += 1;
    }
    w.end(s);
}
pub fn ref_hvcc(v: &HvcCBox, out: &mut [u8]) -> usize {
    let mut w = RefW::new(out);
    ref_hvcc_w(v, &mut w);
    w.p
}
/// offsets (relative to the start of hvcC) of bytes holding reserved bits, with the reserved mask
pub fn hvcc_reserved_mask(off: usize) -> u8 {
    match off {
        21 => 0xF0, // 8 header + 13: reserved(4) + min_spatial_segmentation_idc hi
        23 => 0xFC,
        24 => 0xFC,
        25 => 0xF8,
        26 => 0xF8,
        _ => 0,
    }
}
pub fn any_hev1<const A: usize, const NU: usize, const LN: usize>() -> Hev1Box {
    Hev1Box {
        data_reference_index: kani::any(),
        width: kani::any(),
        height: kani::any(),
        horizresolution: FixedPointU16::new_raw(kani::any()),
        vertresolution: FixedPointU16::new_raw(kani::any()),
        frame_count: kani::any(),
        depth: kani::any(),
        hvcc: any_hvcc::<A, NU, LN>(),
    }
}
pub fn ref_hev1_w(v: &Hev1Box, w: &mut RefW) {
    let s = w.begin(b"hev1");
    ref_visual_entry(w, v.data_reference_index, v.width, v.height, v.horizresolution.raw_value(), v.vertresolution.raw_value(), v.frame_count, v.depth);
    ref_hvcc_w(&v.hvcc, w);
    w.end(s);
}
pub fn ref_hev1(v: &Hev1Box, out: &mut [u8]) -> usize {
    let mut w = RefW::new(out);
    ref_hev1_w(v, &mut w);
    w.p
}

// ------------------------------------------------------------------ esds / mp4a (14496-14 5.6, 14496-1 7.2.6, 14496-3 1.6.2.1)
/// AudioSpecificConfig with a 5-bit object type (1..=30), 4-bit frequency index (not 15) and
/// 4-bit channel configuration: the two-byte form the crate's encoder produces.
pub fn any_esds() -> EsdsBox {
    let profile: u8 = kani::any();
    let freq: u8 = kani::any();
    let chan: u8 = kani::any();
    kani::assume(profile >= 1 && profile <= 30 && freq < 15 && chan < 16);
    let stream_type: u8 = kani::any();
    let up: bool = kani::any();
    kani::assume(stream_type < 64);
    let bsdb: u32 = kani::any();
    kani::assume(bsdb < (1 << 24));
    EsdsBox {
        version: kani::any(),
        flags: any_flags24(),
        es_desc: ESDescriptor {
            es_id: kani::any(),
            dec_config: DecoderConfigDescriptor {
                object_type_indication: kani::any(),
                stream_type,
                up_stream: if up { 2 } else { 0 },
                buffer_size_db: bsdb,
                max_bitrate: kani::any(),
                avg_bitrate: kani::any(),
                dec_specific: DecoderSpecificDescriptor { profile, freq_index: freq, chan_conf: chan },
            },
            sl_config: SLConfigDescriptor {},
        },
    }
}
/// esds with a *concrete* AudioSpecificConfig (object type, frequency index, channel
/// configuration) and every other field symbolic. The decoder's position after the
/// AudioSpecificConfig depends on its bits (explicit sampling rate, extended object type), so with
/// symbolic bits every later descriptor is read at a symbolic position and symbolic execution does
/// not finish; the full symbolic range is decided in the encode direction (h05enc esds) and in
/// C14's in-memory harness.
pub fn any_esds_asc(profile: u8, freq: u8, chan: u8) -> EsdsBox {
    let mut e = any_esds();
    e.es_desc.dec_config.dec_specific = DecoderSpecificDescriptor { profile, freq_index: freq, chan_conf: chan };
    e
}

pub fn ref_esds_w(v: &EsdsBox, w: &mut RefW) {
    let s = w.begin_full(b"esds", v.version, v.flags);
    let d = &v.es_desc;
    // ES_Descriptor: tag 3, length = 3 + (2+13 + (2+2)) + (2+1) = 25
    w.u8(0x03);
    w.u8(25);
    w.u16(d.es_id);
    w.u8(0);
    // DecoderConfigDescriptor: tag 4, length 13 + 4
    w.u8(0x04);
    w.u8(17);
    w.u8(d.dec_config.object_type_indication);
    w.u8((d.dec_config.stream_type << 2) | (d.dec_config.up_stream & 2) | 1);
    w.u24(d.dec_config.buffer_size_db);
    w.u32(d.dec_config.max_bitrate);
    w.u32(d.dec_config.avg_bitrate);
    // DecoderSpecificInfo: tag 5, length 2: audioObjectType(5) samplingFrequencyIndex(4)
    // channelConfiguration(4) GASpecificConfig(3 zero bits)
    w.u8(0x05);
    w.u8(2);
    let ds = &d.dec_config.dec_specific;
    let bits: u16 = ((ds.profile as u16) << 11) | ((ds.freq_index as u16) << 7) | ((ds.chan_conf as u16) << 3);
    w.u16(bits);
    // SLConfigDescriptor: tag 6, length 1, predefined = 2 (MP4)
    w.u8(0x06);
    w.u8(1);
    w.u8(2);
    w.end(s);
}
pub fn ref_esds(v: &EsdsBox, out: &mut [u8]) -> usize {
    let mut w = RefW::new(out);
    ref_esds_w(v, &mut w);
    w.p
}
pub fn any_mp4a(with_esds: bool) -> Mp4aBox {
    Mp4aBox {
        data_reference_index: kani::any(),
        channelcount: kani::any(),
        samplesize: kani::any(),
        samplerate: FixedPointU16::new_raw(kani::any()),
        esds: if with_esds { Some(any_esds()) } else { None },
    }
}
pub fn ref_mp4a_w(v: &Mp4aBox, w: &mut RefW) {
    let s = w.begin(b"mp4a");
    w.zeros(6);
    w.u16(v.data_reference_index);
    w.zeros(8);
    w.u16(v.channelcount);
    w.u16(v.samplesize);
    w.zeros(4);
    w.u32(v.samplerate.raw_value());
    if let Some(ref e) = v.esds {
        ref_esds_w(e, w);
    }
    w.end(s);
}
pub fn ref_mp4a(v: &Mp4aBox, out: &mut [u8]) -> usize {
    let mut w = RefW::new(out);
    ref_mp4a_w(v, &mut w);
    w.p
}

// ------------------------------------------------------------------ containers (size = header + children)
pub fn any_edts<const E: usize>(version: u8) -> EdtsBox {
    EdtsBox { elst: Some(any_elst::<E>(version)) }
}
pub fn ref_edts(v: &EdtsBox, out: &mut [u8]) -> usize {
    let mut w = RefW::new(out);
    let s = w.begin(b"edts");
    if let Some(ref e) = v.elst {
        ref_elst_w(e, &mut w);
    }
    w.end(s);
    w.p
}
pub fn any_mvex(with_mehd: Option<u8>) -> MvexBox {
    MvexBox { mehd: with_mehd.map(any_mehd), trex: any_trex() }
}
pub fn ref_mvex(v: &MvexBox, out: &mut [u8]) -> usize {
    let mut w = RefW::new(out);
    ref_mvex_w(v, &mut w);
    w.p
}
pub fn ref_mvex_w(v: &MvexBox, w: &mut RefW) {
    let s = w.begin(b"mvex");
    if let Some(ref m) = v.mehd {
        ref_mehd_w(m, w);
    }
    ref_trex_w(&v.trex, w);
    w.end(s);
}
/// traf: tfhd (+ tfdt) (+ trun with N samples carrying sizes and durations)
pub fn any_traf<const N: usize>(tfdt: Option<u8>, trun: bool) -> TrafBox {
    // concrete tfhd flags inside containers: with symbolic information bits the decoder's
    // `flags & 0x01 > 0` tests are undecided for symbolic execution, the cursor position after
    // tfhd becomes symbolic and every later child is read at a symbolic position
    let mut tfhd = any_tfhd(0x08);
    tfhd.flags = 0x08;
    TrafBox { tfhd, tfdt: tfdt.map(any_tfdt), trun: if trun { Some(any_trun::<N>(0x301)) } else { None } }
}
pub fn ref_traf_w(v: &TrafBox, w: &mut RefW) {
    let s = w.begin(b"traf");
    ref_tfhd_w(&v.tfhd, w);
    if let Some(ref t) = v.tfdt {
        ref_tfdt_w(t, w);
    }
    if let Some(ref t) = v.trun {
        ref_trun_w(t, w);
    }
    w.end(s);
}
pub fn ref_traf(v: &TrafBox, out: &mut [u8]) -> usize {
    let mut w = RefW::new(out);
    ref_traf_w(v, &mut w);
    w.p
}
/// moof: mfhd + T trafs (tfhd only)
pub fn any_moof<const T: usize>() -> MoofBox {
    let mut v = MoofBox { mfhd: any_mfhd(), trafs: Vec::new() };
    let mut i = 0;
    while i < T {
        v.trafs.push(any_traf::<0>(None, false));
        i += 1;
    }
    v
}
pub fn ref_moof(v: &MoofBox, out: &mut [u8]) -> usize {
    let mut w = RefW::new(out);
    let s = w.begin(b"moof");
    ref_mfhd_w(&v.mfhd, &mut w);
    let mut i = 0;
    while i < v.trafs.len() {
        ref_traf_w(&v.trafs[i], &mut w);
        i += 1;
    }
    w.end(s);
    w.p
}
/// moov without tracks: mvhd (+ mvex)
pub fn any_moov_trackless(mvex: bool) -> MoovBox {
    MoovBox { mvhd: any_mvhd(0), meta: None, mvex: if mvex { Some(any_mvex(None)) } else { None }, traks: Vec::new(), udta: None }
}
pub fn ref_moov(v: &MoovBox, out: &mut [u8]) -> usize {
    let mut w = RefW::new(out);
    let s = w.begin(b"moov");
    ref_mvhd_w(&v.mvhd, &mut w);
    if let Some(ref m) = v.mvex {
        ref_mvex_w(m, &mut w);
    }
    w.end(s);
    w.p
}
pub fn any_udta_empty() -> UdtaBox {
    UdtaBox { meta: None }
}
pub fn ref_udta(v: &UdtaBox, out: &mut [u8]) -> usize {
    let mut w = RefW::new(out);
    let s = w.begin(b"udta");
    w.end(s);
    w.p
}
/// stsd with one sample entry
pub fn any_stsd_mp4a() -> StsdBox {
    StsdBox { version: kani::any(), flags: any_flags24(), avc1: None, hev1: None, vp09: None, mp4a: Some(any_mp4a(false)), tx3g: None }
}
pub fn any_stsd_tx3g() -> StsdBox {
    StsdBox { version: kani::any(), flags: any_flags24(), avc1: None, hev1: None, vp09: None, mp4a: None, tx3g: Some(any_tx3g()) }
}
pub fn ref_stsd(v: &StsdBox, out: &mut [u8]) -> usize {
    let mut w = RefW::new(out);
    let s = w.begin_full(b"stsd", v.version, v.flags);
    w.u32(1);
    if let Some(ref m) = v.mp4a {
        ref_mp4a_w(m, &mut w);
    } else if let Some(ref t) = v.tx3g {
        ref_tx3g_w(t, &mut w);
    }
    w.end(s);
    w.p
}
