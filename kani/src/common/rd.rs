//! Harness-side stream wrappers (C07 operation counting, C10 fault injection, C10 short transfers).
use std::io::{self, Cursor, Read, Seek, SeekFrom, Write};

pub fn any_size(nb: usize) -> u64 {
    let s: u64 = kani::any();
    kani::assume(s <= nb as u64);
    s
}

pub fn plain(b: &[u8]) -> Cursor<&[u8]> {
    let mut c = Cursor::new(b);
    c.set_position(8);
    c
}

/// Counts every read_exact / read / seek call. `read_exact` is overridden so that one call of the
/// crate is one operation (the default loop over `read` would be the harness's work, not the crate's).
pub struct Counting<'a> {
    pub inner: Cursor<&'a [u8]>,
    pub ops: u32,
    pub bytes: u64,
}

pub fn counting(b: &[u8]) -> Counting<'_> {
    let mut c = Cursor::new(b);
    c.set_position(8);
    Counting { inner: c, ops: 0, bytes: 0 }
}

impl<'a> Read for Counting<'a> {
    fn read(&mut self, buf: &mut [u8]) -> io::Result<usize> {
        self.ops += 1;
        let n = self.inner.read(buf)?;
        self.bytes += n as u64;
        Ok(n)
    }
    fn read_exact(&mut self, buf: &mut [u8]) -> io::Result<()> {
        self.ops += 1;
        self.bytes += buf.len() as u64;
        self.inner.read_exact(buf)
    }
}

impl<'a> Seek for Counting<'a> {
    fn seek(&mut self, pos: SeekFrom) -> io::Result<u64> {
        self.ops += 1;
        self.inner.seek(pos)
    }
    fn stream_position(&mut self) -> io::Result<u64> {
        // position queries do no I/O: not counted
        Ok(self.inner.position())
    }
}

/// C08: set the allocation limit from the buffer length (4n + 64 per request), then a plain cursor.
pub fn limited(b: &[u8]) -> Cursor<&[u8]> {
    crate::common::alloc::set_limit(4 * b.len() + 64);
    plain(b)
}

// ---------------------------------------------------------------- C10: fault injection
/// The k-th stream call (read / read_exact / seek, counted together from 0) fails with an I/O error.
pub struct FailAt<'a> {
    pub inner: Cursor<&'a [u8]>,
    pub k: u32,
    pub calls: u32,
    pub fired: bool,
}
pub fn fail_at(b: &[u8], start: u64, k: u32) -> FailAt<'_> {
    let mut c = Cursor::new(b);
    c.set_position(start);
    FailAt { inner: c, k, calls: 0, fired: false }
}
impl<'a> FailAt<'a> {
    fn tick(&mut self) -> io::Result<()> {
        let n = self.calls;
        self.calls += 1;
        if n == self.k {
            self.fired = true;
            return Err(io::Error::from(io::ErrorKind::Other));
        }
        Ok(())
    }
}
impl<'a> Read for FailAt<'a> {
    fn read(&mut self, buf: &mut [u8]) -> io::Result<usize> {
        self.tick()?;
        self.inner.read(buf)
    }
    fn read_exact(&mut self, buf: &mut [u8]) -> io::Result<()> {
        self.tick()?;
        self.inner.read_exact(buf)
    }
}
impl<'a> Seek for FailAt<'a> {
    fn seek(&mut self, pos: SeekFrom) -> io::Result<u64> {
        self.tick()?;
        self.inner.seek(pos)
    }
    fn stream_position(&mut self) -> io::Result<u64> {
        self.tick()?;
        Ok(self.inner.position())
    }
}

/// A reader that legally transfers at most `c` bytes per `read` call and reports one interrupted
/// call; `read_exact` is NOT overridden, so the standard retry loop is what runs.
pub struct Chunked<'a> {
    pub inner: Cursor<&'a [u8]>,
    pub c: usize,
    pub interrupt_at: u32,
    pub calls: u32,
}
pub fn chunked(b: &[u8], start: u64, c: usize, interrupt_at: u32) -> Chunked<'_> {
    let mut cur = Cursor::new(b);
    cur.set_position(start);
    Chunked { inner: cur, c, interrupt_at, calls: 0 }
}
impl<'a> Read for Chunked<'a> {
    fn read(&mut self, buf: &mut [u8]) -> io::Result<usize> {
        let n = self.calls;
        self.calls += 1;
        if n == self.interrupt_at {
            return Err(io::Error::from(io::ErrorKind::Interrupted));
        }
        let m = if buf.len() > self.c { self.c } else { buf.len() };
        self.inner.read(&mut buf[..m])
    }
}
impl<'a> Seek for Chunked<'a> {
    fn seek(&mut self, pos: SeekFrom) -> io::Result<u64> {
        self.inner.seek(pos)
    }
}
