//! Harness-side stream wrappers (C07 operation counting, C10 fault injection, C10 short transfers).
use std::io::{self, Cursor, Read, Seek, SeekFrom, Write};

pub fn any_size(nb: usize) -> u64 {
    let s: u64 = kani::any();
    kani::assume(s <= nb as u64);
    s
}

pub fn plain(b: &[u8]) -> Cursor<&[u8]> {
    let mut c = Cursor::new(b);
    c.set_position(8);
    c
}

/// Counts every read_exact / read / seek call. `read_exact` is overridden so that one call of the
/// crate is one operation (the default loop over `read` would be the harness's work, not the crate's).
pub struct Counting<'a> {
    pub inner: Cursor<&'a [u8]>,
    pub ops: u32,
    pub bytes: u64,
}

pub fn counting(b: &[u8]) -> Counting<'_> {
    let mut c = Cursor::new(b);
    c.set_position(8);
    Counting { inner: c, ops: 0, bytes: 0 }
}

impl<'a> Read for Counting<'a> {
    fn read(&mut self, buf: &mut [u8]) -> io::Result<usize> {
        self.ops += 1;
        let n = self.inner.read(buf)?;
        self.bytes += n as u64;
        Ok(n)
    }
    fn read_exact(&mut self, buf: &mut [u8]) -> io::Result<()> {
        self.ops += 1;
        self.bytes += buf.len() as u64;
        self.inner.read_exact(buf)
    }
}

impl<'a> Seek for Counting<'a> {
    fn seek(&mut self, pos: SeekFrom) -> io::Result<u64> {
        self.ops += 1;
        self.inner.seek(pos)
    }
    fn stream_position(&mut self) -> io::Result<u64> {
        // position queries do no I/O: not counted
        Ok(self.inner.position())
    }
}

/// C08: set the allocation limit from the buffer length (4n + 64 per request), then a plain cursor.
pub fn limited(b: &[u8]) -> Cursor<&[u8]> {
    crate::common::alloc::set_limit(4 * b.len() + 64);
    plain(b)
}
