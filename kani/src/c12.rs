//! C12 — the parse result is independent of physical layout choices. Metamorphic pairs per unit:
//! spare bytes after the last field, 64-bit instead of 32-bit size header, an unknown box inserted
//! between the children of a container, sibling order, chunk offsets shifted by a layout change.
use crate::common::boxes::*;
use crate::common::model::*;
use crate::common::{be32, put32, put64};
use mp4::verif_hooks::*;
use mp4::*;
use std::io::Cursor;

/// spare tail: `t` extra bytes (symbolic content) after the last field with the size enlarged by t;
/// and the 64-bit header form (size field 1 + largesize) in front of the same payload. `large` and
/// `t` are concrete per harness (the generator-style list below covers t in {0, 1, 4} x both
/// header forms); the field values and the spare bytes are symbolic.
macro_rules! layout {
    ($name:ident, $unwind:expr, $ty:ty, $v:expr, $refenc:path, $nb:expr, $large:expr, $t:expr) => {
        #[kani::proof]
        #[kani::unwind($unwind)]
        fn $name() {
            let v: $ty = $v;
            let mut a = [0u8; $nb];
            let n = $refenc(&v, &mut a);
            assert!(n + 24 <= $nb, "harness buffer has room for tail and wide header");
            let large: bool = $large;
            let t: usize = $t;
            let junk: [u8; 4] = kani::any();
            // b = the other layout of the same logical box
            let mut b = [0u8; $nb];
            let hdr = if large { 16 } else { 8 };
            let total = n + t + (hdr - 8);
            if large {
                put32(&mut b, 0, 1);
                put64(&mut b, 8, total as u64);
            } else {
                put32(&mut b, 0, total as u32);
            }
            b[4] = a[4];
            b[5] = a[5];
            b[6] = a[6];
            b[7] = a[7];
            let mut i = 8;
            while i < n {
                b[hdr + i - 8] = a[i];
                i += 1;
            }
            let mut j = 0;
            while j < t {
                b[hdr + n - 8 + j] = junk[j];
                j += 1;
            }
            let mut r = Cursor::new(&b[..]);
            match BoxHeader::read(&mut r) {
                Ok(h) => {
                    assert!(h.name == v.box_type());
                    match <$ty>::read_box(&mut r, h.size) {
                        Ok(back) => {
                            assert!(back == v, "C12 spare tail bytes / a 64-bit size header do not change the parsed value");
                            assert!(r.position() == total as u64, "C12 the stream is left at the end of the box in either layout");
                            kani::cover!(true, "alternative layout decoded");
                            std::mem::forget(back);
                        }
                        Err(e) => {
                            std::mem::forget(e);
                            assert!(false, "C12 the alternative layout is accepted");
                        }
                    }
                }
                Err(e) => {
                    std::mem::forget(e);
                    assert!(false, "C12 the alternative header is readable");
                }
            }
            std::mem::forget(v);
        }
    };
}
layout!(q_h12lay__stts_e2_tail4, 42, SttsBox, any_stts::<2>(), ref_stts, 72, false, 4);
layout!(q_h12lay__stts_e2_large, 42, SttsBox, any_stts::<2>(), ref_stts, 72, true, 0);
layout!(q_h12lay__stsc_e1_large_tail1, 42, StscBox, any_stsc::<1>(), ref_stsc, 72, true, 1);
layout!(q_h12lay__stsz_table_e2_tail1, 42, StszBox, any_stsz::<2>(false), ref_stsz, 72, false, 1);
layout!(q_h12lay__stco_e2_large_tail4, 42, StcoBox, any_stco::<2>(), ref_stco, 72, true, 4);
layout!(q_h12lay__tfhd_opt39_tail4, 50, TfhdBox, any_tfhd(0x39), ref_tfhd, 80, false, 4);
layout!(q_h12lay__tfhd_opt39_large, 50, TfhdBox, any_tfhd(0x39), ref_tfhd, 80, true, 0);
layout!(q_h12lay__tfdt_v1_large_tail4, 42, TfdtBox, any_tfdt(1), ref_tfdt, 72, true, 4);
layout!(q_h12lay__trex_tail1, 50, TrexBox, any_trex(), ref_trex, 80, false, 1);
layout!(q_h12lay__vmhd_large, 42, VmhdBox, any_vmhd(), ref_vmhd, 72, true, 0);
layout!(q_h12lay__mvex_trex_large, 50, MvexBox, any_mvex(None), ref_mvex, 80, true, 0);
layout!(t_h12lay__tkhd_v0_large_tail4, 100, TkhdBox, any_tkhd(0), ref_tkhd, 128, true, 4);
layout!(t_h12lay__mdhd_v0_tail4, 42, MdhdBox, any_mdhd(0), ref_mdhd, 72, false, 4);
layout!(t_h12lay__trun_opt301_n1_large, 42, TrunBox, any_trun::<1>(0x301), ref_trun, 72, true, 0);
layout!(t_h12lay__trun_opt301_n1_tail4, 42, TrunBox, any_trun::<1>(0x301), ref_trun, 72, false, 4);
layout!(t_h12lay__co64_e2_large_tail1, 42, Co64Box, any_co64::<2>(), ref_co64, 72, true, 1);
layout!(t_h12lay__elst_v0_e1_tail4, 42, ElstBox, any_elst::<1>(0), ref_elst, 72, false, 4);
layout!(t_h12lay__traf_tfhd_large, 42, TrafBox, any_traf::<0>(None, false), ref_traf, 72, true, 0);
layout!(t_h12lay__stss_e2_tail4, 42, StssBox, any_stss::<2>(), ref_stss, 72, false, 4);
layout!(t_h12lay__ctts_e2_large, 42, CttsBox, any_ctts::<2>(), ref_ctts, 72, true, 0);

/// An unknown box (symbolic type that no container of the crate knows, `payload` symbolic bytes)
/// written at the current position.
fn put_unknown(w: &mut crate::common::refw::RefW, payload: usize) {
    let ty: [u8; 4] = kani::any();
    kani::assume(ty[0] == b'z'); // none of the crate's four-character codes starts with 'z'
    let junk: [u8; 4] = kani::any();
    let f = w.begin(&ty);
    let mut j = 0;
    while j < 4 {
        if j < payload {
            w.u8(junk[j]);
        }
        j += 1;
    }
    w.end(f);
}

macro_rules! decode_all {
    ($ty:ty, $buf:expr, $n:expr) => {{
        let mut r = Cursor::new(&$buf[..]);
        match BoxHeader::read(&mut r) {
            Ok(h) => match <$ty>::read_box(&mut r, h.size) {
                Ok(v) => {
                    assert!(r.position() == $n as u64, "C12 the container is consumed exactly");
                    Some(v)
                }
                Err(e) => {
                    std::mem::forget(e);
                    None
                }
            },
            Err(e) => {
                std::mem::forget(e);
                None
            }
        }
    }};
}

/// mvex { mehd, trex } with an unknown box at child position `pos` (3 = none), children in wire
/// order or swapped: same parse result.
fn h12_mvex(pos: usize, payload: usize, swap: bool) {
    let v = any_mvex(Some(0));
    let mut buf = [0u8; 96];
    let n = {
        let mut w = crate::common::refw::RefW::new(&mut buf[..]);
        let s = w.begin(b"mvex");
        if pos == 0 {
            put_unknown(&mut w, payload);
        }
        if swap {
            ref_trex_w(&v.trex, &mut w);
        } else {
            ref_mehd_w(v.mehd.as_ref().unwrap(), &mut w);
        }
        if pos == 1 {
            put_unknown(&mut w, payload);
        }
        if swap {
            ref_mehd_w(v.mehd.as_ref().unwrap(), &mut w);
        } else {
            ref_trex_w(&v.trex, &mut w);
        }
        if pos == 2 {
            put_unknown(&mut w, payload);
        }
        w.end(s);
        w.p
    };
    match decode_all!(MvexBox, buf, n) {
        Some(back) => {
            assert!(back == v, "C12 unknown boxes between children and sibling order do not change the parse result");
            kani::cover!(true, "decoded");
            std::mem::forget(back);
        }
        None => assert!(false, "C12 the re-laid-out container is accepted"),
    }
    std::mem::forget(v);
}
#[kani::proof]
#[kani::unwind(8)]
fn q_h12free__mvex_pos0_empty() {
    h12_mvex(0, 0, false)
}
#[kani::proof]
#[kani::unwind(8)]
fn q_h12free__mvex_pos1_payload4() {
    h12_mvex(1, 4, false)
}
#[kani::proof]
#[kani::unwind(8)]
fn t_h12free__mvex_pos2_payload1() {
    h12_mvex(2, 1, false)
}
#[kani::proof]
#[kani::unwind(8)]
fn q_h12order__mvex_trex_before_mehd() {
    h12_mvex(3, 0, true)
}

/// traf { tfhd, tfdt, trun(1 sample) } with an unknown box at child position `pos` (4 = none) and
/// the children in one of three orders.
fn h12_traf(pos: usize, payload: usize, order: u8) {
    let v = any_traf::<1>(Some(0), true);
    let mut buf = [0u8; 112];
    let n = {
        let mut w = crate::common::refw::RefW::new(&mut buf[..]);
        let s = w.begin(b"traf");
        let mut slot = 0;
        while slot < 3 {
            if pos == slot {
                put_unknown(&mut w, payload);
            }
            // which child goes into this slot
            let child = match (order, slot) {
                (0, 0) | (1, 0) | (2, 2) => 0, // tfhd
                (0, 1) | (1, 2) | (2, 1) => 1, // tfdt
                _ => 2,                        // trun
            };
            if child == 0 {
                ref_tfhd_w(&v.tfhd, &mut w);
            } else if child == 1 {
                ref_tfdt_w(v.tfdt.as_ref().unwrap(), &mut w);
            } else {
                ref_trun_w(v.trun.as_ref().unwrap(), &mut w);
            }
            slot += 1;
        }
        if pos == 3 {
            put_unknown(&mut w, payload);
        }
        w.end(s);
        w.p
    };
    match decode_all!(TrafBox, buf, n) {
        Some(back) => {
            assert!(back == v, "C12 unknown boxes between children and sibling order do not change the parse result");
            kani::cover!(true, "decoded");
            std::mem::forget(back);
        }
        None => assert!(false, "C12 the re-laid-out container is accepted"),
    }
    std::mem::forget(v);
}
#[kani::proof]
#[kani::unwind(12)]
fn t_h12free__traf_pos1_payload2() {
    h12_traf(1, 2, 0)
}
#[kani::proof]
#[kani::unwind(12)]
fn t_h12free__traf_pos3_empty() {
    h12_traf(3, 0, 0)
}
#[kani::proof]
#[kani::unwind(12)]
fn t_h12order__traf_trun_before_tfdt() {
    h12_traf(4, 0, 1)
}
#[kani::proof]
#[kani::unwind(12)]
fn t_h12order__traf_reversed() {
    h12_traf(0, 3, 2)
}

/// Chunk offsets shifted by a layout change d: every sample offset shifts by exactly d, nothing
/// else changes (two chunks of 2 + 1 samples, symbolic sizes and offsets).
#[kani::proof]
#[kani::unwind(6)]
fn q_h12shift__offsets_shift_with_layout() {
    let sizes: [u32; 3] = kani::any();
    let offs: [u32; 2] = kani::any();
    let d: u32 = kani::any();
    kani::assume(offs[0] as u64 + d as u64 <= u32::MAX as u64 && offs[1] as u64 + d as u64 <= u32::MAX as u64);
    let runs = [Run { first_chunk: 1, spc: 2, first_sample: 1 }, Run { first_chunk: 2, spc: 1, first_sample: 3 }];
    let mk = |shift: u32| {
        let mut stbl = StblBox::default();
        stbl.stsc = stsc_from(&runs);
        stbl.stsz.sample_count = 3;
        stbl.stsz.sample_sizes = sizes.to_vec();
        let mut co = StcoBox::default();
        co.entries.push(offs[0] + shift);
        co.entries.push(offs[1] + shift);
        stbl.stco = Some(co);
        track_from(stbl)
    };
    let a = mk(0);
    let b = mk(d);
    let k: u32 = kani::any();
    match (a.sample_offset(k), b.sample_offset(k)) {
        (Ok(x), Ok(y)) => {
            assert!(y == x + d as u64, "C12 sample offsets shift by exactly the layout change");
            kani::cover!(true, "(opt) both found");
        }
        (Err(e1), Err(e2)) => {
            std::mem::forget(e1);
            std::mem::forget(e2);
        }
        (x, y) => {
            std::mem::forget(x);
            std::mem::forget(y);
            assert!(false, "C12 the same samples exist in both layouts");
        }
    }
    assert!(a.sample_count() == b.sample_count());
    kani::cover!(true, "returned");
    std::mem::forget(a);
    std::mem::forget(b);
}
