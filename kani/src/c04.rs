//! C04 — box encode/decode are mutually inverse and size-exact. Per-shape wrappers: gen/c04.rs.
use crate::common::boxes::*;
use mp4::verif_hooks::*;
use mp4::*;
use std::io::Cursor;
