"""Static per-property description used by bin/check (bounds, what is outside, assumptions).
Numbers that describe a *run* (obligations, queries, solver time) are never kept here: they are
measured by bin/check from Kani's output on every run."""

MEM_KB = 16_000_000          # ulimit -v per Kani/CBMC process
MAX_REPLAYS = 3             # distinct failing sites replayed natively per run
MAX_JOBS = 14                # 62 GB / ~4 GB typical, 16 cores
TIMEOUT = dict(quick=900, thorough=2400, replay=1200, native=300)

# families whose unwinding assertions *are* the property (C07: a loop that can run more often
# than the input allows); everywhere else a failed unwinding assertion is a harness error.
UNWIND_IS_PROPERTY = ("h07",)

# rough relative cost, used only to start the long ones first
WEIGHTS = {}


def unwind_is_property(h):
    return h["family"].startswith(UNWIND_IS_PROPERTY)


def weight(h):
    return WEIGHTS.get(h["family"], 1)


def timeout_for(h, tier):
    return TIMEOUT[tier]


GLUE = ("Mp4Reader::read_header / read_fragment_header and the Mp4Reader dispatch by track id "
        "(top-level box loop, HashMap<u32, Mp4Track>) cannot be symbolically executed with Kani/CBMC here "
        "(DESIGN.md 2.3); edits confined to those lines are not seen")

COMMON_ASSUME = [
    "Kani models the dev profile (overflow checks on, panic=abort); release differs only where a check fails",
    "container/list lengths and payload lengths are concrete per harness (the shape); all values symbolic",
]

HOOK_COMMITS = ["092c7f4"]

NOT_BUILT = {}

TECH = ("bounded model checking of the compiled Rust code: Kani 0.68 proof harnesses over kani::any() inputs, "
        "CBMC 6.11 symbolic execution with unwinding assertions, CaDiCaL SAT verdict; counterexamples replayed "
        "natively via Kani concrete playback")

PROPS = {
    "C03": dict(
        design_ref="DESIGN.md 5.3",
        level_text="Mp4Track's lookup code (sample_offset, sample_size, sample_time, rendering offset, sync, read_sample, sample_count) is "
                   "executed symbolically on a track built directly from tables, once per table *shape* (every composition of N samples into "
                   "chunks under maximal / per-chunk / all run-length groupings; 0..4 stts/ctts runs; 0..8 stss entries); within a shape every "
                   "offset, size, delta, composition offset, sync entry and the sample id k (whole u32 range) is symbolic, and the result is "
                   "compared with a reference formula written from 14496-12 8.6/8.7. Off-by-one errors at run boundaries fail for some k in every shape.",
        level_note="Per track; bounded by N<=4 (quick) / N<=6 (thorough) samples for the chunk map, stts/ctts run lengths 0..3 (0..65535 thorough), "
                   "read_sample byte comparison on samples <= 2 bytes in a 16-byte stream. Trusted: Kani/CBMC/CaDiCaL, the reference formulas in kani/src/c03.rs + common/model.rs. " + GLUE,
        bounds="chunk map: all compositions of N<=4 (quick) / N<=6 (thorough) samples into chunks, groupings max+own (quick) / all (thorough, N<=5); "
               "offsets < 2^62 (u32 for stco), sizes full u32 (>0 in constant mode), k: all u32; stts/ctts: 0..3 runs (4 thorough) with run lengths 0..3 "
               "(0..65535 thorough) and full-range deltas / i32 offsets; stss: 0..4 (8 thorough) strictly increasing entries; read_sample: sizes <= 2, offsets < 8",
        outside="tables longer than the bounds; dispatch through Mp4Reader's track map (several tracks); stsc first_sample derivation is decided in C04/C05's stsc harness",
        assumptions=COMMON_ASSUME + ["tables are mutually consistent by construction (the property's precondition)",
                                     "chunk offsets < 2^62 (a consistent file keeps chunks inside the file)"],
    ),
    "C16": dict(
        design_ref="DESIGN.md 5.16",
        level_text="Each mapping is decided by one or two SAT queries whose single symbolic input ranges over the "
                   "mapping's complete domain (2^32 codes, 2^16 pairs, all u8/u16/u32 raw values), against tables "
                   "written from the specifications. For a finite total function this is the whole property, not a sample.",
        level_note="Trusted: Kani codegen, CBMC, CaDiCaL, the oracle tables in kani/src/c16.rs. Outside: Display/Debug text of FourCC/BoxType.",
        bounds="complete domains: all 2^32 four-character codes, all 2^16 (profile, compat) pairs, all u8/u16/u32 raw values; "
               "FromStr on strings of 0..=6 symbolic bytes; language strings of exactly 3 symbolic bytes",
        outside="textual rendering (Display/Debug/to_string) of FourCC/BoxType: fmt machinery does not finish in CBMC",
        assumptions=COMMON_ASSUME + ["oracle tables in kani/src/c16.rs written from ISO/IEC 14496-12/-3/-10 Annex A"],
    ),
}


def get(pid):
    return PROPS[pid]
