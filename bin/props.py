"""Static per-property description used by bin/check (bounds, what is outside, assumptions).
Numbers that describe a *run* (obligations, queries, solver time) are never kept here: they are
measured by bin/check from Kani's output on every run."""

MEM_KB = 16_000_000          # ulimit -v per Kani/CBMC process
MAX_REPLAYS = 3             # distinct failing sites replayed natively per run
MAX_JOBS = 12                # 62 GB / ~4 GB typical, 16 cores
# heavier families (writer histories, 64-bit arithmetic): fewer at a time, they need 4-8 GB each
JOBS = dict(C11=8, C12=8, C01=6, C02=6, C09=7, C13=6, C17=6, C14=8, C15=8, C10=8)
TIMEOUT = dict(quick=900, thorough=4800, replay=3000, native=300)

# families whose unwinding assertions *are* the property (C07: a loop that can run more often
# than the input allows); everywhere else a failed unwinding assertion is a harness error.
UNWIND_IS_PROPERTY = ("h07",)

# rough relative cost, used only to start the long ones first
WEIGHTS = {}


def unwind_is_property(h):
    return h["family"].startswith(UNWIND_IS_PROPERTY)


def weight(h):
    return WEIGHTS.get(h["family"], 1)


def timeout_for(h, tier):
    # VERIF_CAP: calibration runs use a much tighter cap than the registered one, so that what
    # stays in a tier has a wide margin on slower machines
    import os
    return int(os.environ.get("VERIF_CAP") or TIMEOUT[tier])


GLUE = ("Mp4Reader::read_header / read_fragment_header and the Mp4Reader dispatch by track id "
        "(top-level box loop, HashMap<u32, Mp4Track>) cannot be symbolically executed with Kani/CBMC here "
        "(DESIGN.md 2.3); edits confined to those lines are not seen")

COMMON_ASSUME = [
    "Kani models the dev profile (overflow checks on, panic=abort); release differs only where a check fails",
    "container/list lengths and payload lengths are concrete per harness (the shape); all values symbolic",
]

HOOK_COMMITS = ["092c7f4", "3a1a3a6"]

NOT_BUILT = {}

TECH = ("bounded model checking of the compiled Rust code: Kani 0.68 proof harnesses over kani::any() inputs, "
        "CBMC 6.11 symbolic execution with unwinding assertions, CaDiCaL SAT verdict; counterexamples replayed "
        "natively via Kani concrete playback")

PROPS = {
    "C01": dict(
        design_ref="DESIGN.md 5.1",
        level_text="The real track writer is run from its real initial state over every history of K<=1 (quick; K=2 as table totals) / K<=2 (thorough; K=3 as table totals) write_sample "
                   "calls per payload-length vector, with payload bytes, durations, rendering offsets, sync flags and both timescales symbolic, so "
                   "every interleaving of chunk-flush / fixed-to-variable stsz / lazy ctts+stss decisions is inside one query; the produced tables are "
                   "interpreted by the ISO 8.6/8.7 semantics (additive walks) and must mean exactly the samples written, with the chunk bytes at the "
                   "recorded offsets. Reading such tables back is decided by C03 for every table shape up to 4 samples; t_h01e2e additionally runs the "
                   "real lookups on the writer's own tables. Mp4Writer: symbolic track id, rejected calls leave every piece of writer state unchanged.",
        level_note="Bounded: K<=2 samples with the full interpretation of the tables (the K=3 interpretations exhaust 32 GB and are excluded), payload <= 2 bytes, timescales concrete per harness except t_h01sym, durations < 2^30 (u32 chunk_duration overflow is C17's), <= 2 tracks. "
                   "Composition with C03 (lookup) and C04 (table codecs) instead of reopening the produced bytes: " + GLUE,
        bounds="histories of K<=1 (quick) / K<=2 (thorough) samples from the initial state with full table interpretation, K=2 / K=3 as table totals (h01sums), every media kind at K=1, payload lengths in {0,1,2}, "
               "durations < 2^30, timescales >= 1, i32 offsets, both sync values; Mp4Writer with 0..2 tracks and a symbolic track id",
        outside="histories longer than 2 samples with full interpretation (an inductive step over arbitrary writer states is not built), symbolic timescales beyond K=1, reopening the bytes with Mp4Reader::read_header, samples larger than 2 bytes",
        assumptions=COMMON_ASSUME + ["durations < 2^30 per sample", "the output stream is an in-memory cursor with room"],
    ),
    "C02": dict(
        design_ref="DESIGN.md 5.2",
        level_text="Table consistency is asserted on the writer state after every history of C01's space (size / time / composition / chunk tables "
                   "each account for exactly K samples, sync numbers strictly increasing in range, chunks inside the written media data, disjoint "
                   "and increasing, mdhd duration = sum); track-header duration within one tick is decided without division on symbolic "
                   "timescales and durations; the top level of a zero-track file (ftyp, mdat, moov) is walked byte by byte by harness-side "
                   "code for symbolic brands / version / timescale.",
        level_note="Byte-level tiling only for the zero-track writer (with a track the whole pipeline does not finish); per-container size identities "
                   "come from C04 (write_box returns box_size() == bytes written, header size == that). Durations and timescales < 2^20 in h02dur. " + GLUE,
        bounds="K<=1 full / K=2 totals (quick), K<=2 full / K=3 totals (thorough) samples per history, concrete timescale pairs, payload lengths 0..2, durations < 2^30 (< 2^20 with timescales < 2^20 in the one-tick check), 0..2 compatible brands",
        outside="byte-level walk of a file that has tracks; several tracks; histories longer than 3 samples",
        assumptions=COMMON_ASSUME + ["durations < 2^30 per sample"],
    ),
    "C04": dict(
        design_ref="DESIGN.md 5.4",
        level_text="For every leaf/table box type and every shape (version, flag-gated optional fields, list lengths 0..2, string lengths 0..3) a value "
                   "with all fields symbolic within wire width is encoded with the real write_box into a buffer followed by symbolic sibling bytes, the "
                   "header is re-read with the real BoxHeader::read and the box decoded with the real read_box: returned count == box_size() == bytes "
                   "advanced, header type and size, cursor exactly at the box end, decoded value == original.",
        level_note="Bounded by the shape list (coverage.families / samples); boxes < 4 GiB; containers see level_note in evidence. Trusted: Kani/CBMC/CaDiCaL, derived PartialEq of the box types.",
        bounds="list lengths 0..2, strings 0..3 ASCII bytes, NAL units <= 4 bytes, tfhd: all 32 optional-field combinations, trun: all 64 flag combinations x 0..2 samples (thorough; quick = covering subset)",
        outside="values not representable on the wire (version-0 times >= 2^32, flags >= 2^24, strings with NUL), IlstBox (HashMap), boxes >= 4 GiB (C13), deep containers",
        assumptions=COMMON_ASSUME + ["field values within wire width (kani::assume per field; listed in common/boxes.rs)"],
    ),
    "C05": dict(
        design_ref="DESIGN.md 5.5",
        level_text="Same shape space as C04, different oracle: the bytes the real write_box produces are compared, at a symbolic byte index, with an "
                   "independent reference encoder written from ISO/IEC 14496-12/-14/-15/-1/-3, 3GPP TS 26.245 and the VP9 binding (common/boxes.rs); "
                   "together with C04's round trip this also decides that reference bytes decode to the same fields. Alternative wire forms (64-bit "
                   "header, padded descriptor lengths, meta without version/flags) are decoded from reference bytes directly.",
        level_note="Trusted: the reference encoders, Kani/CBMC/CaDiCaL. Reserved bits of hvcC are masked (fields, not reserved bits, are the property).",
        bounds="as C04",
        outside="as C04; AudioSpecificConfig object types >= 31 and frequency index 15 in the encoder direction",
        assumptions=COMMON_ASSUME + ["field values within wire width"],
    ),
    "C03": dict(
        design_ref="DESIGN.md 5.3",
        level_text="Mp4Track's lookup code (sample_offset, sample_size, sample_time, rendering offset, sync, read_sample, sample_count) is "
                   "executed symbolically on a track built directly from tables, once per table *shape* (every composition of N samples into "
                   "chunks under maximal / per-chunk / all run-length groupings; 0..4 stts/ctts runs; 0..8 stss entries); within a shape every "
                   "offset, size, delta, composition offset, sync entry and the sample id k (whole u32 range) is symbolic, and the result is "
                   "compared with a reference formula written from 14496-12 8.6/8.7. Off-by-one errors at run boundaries fail for some k in every shape.",
        level_note="Per track; bounded by N<=4 (quick) / N<=6 (thorough) samples for the chunk map, stts/ctts run lengths 0..3 (0..65535 thorough), "
                   "read_sample byte comparison on samples <= 2 bytes in a 16-byte stream. Trusted: Kani/CBMC/CaDiCaL, the reference formulas in kani/src/c03.rs + common/model.rs. " + GLUE,
        bounds="chunk map: all compositions of N<=4 (quick) / N<=6 (thorough) samples into chunks, groupings max+own (quick) / all (thorough, N<=5); "
               "offsets < 2^62 (u32 for stco), sizes full u32 (>0 in constant mode), k: all u32; stts/ctts: 0..3 runs (4 thorough) with run lengths 0..3 "
               "(0..65535 thorough) and full-range deltas / i32 offsets; stss: 0..4 (8 thorough) strictly increasing entries; read_sample: sizes <= 2, offsets < 8",
        outside="tables longer than the bounds; dispatch through Mp4Reader's track map (several tracks); stsc first_sample derivation is decided in C04/C05's stsc harness",
        assumptions=COMMON_ASSUME + ["tables are mutually consistent by construction (the property's precondition)",
                                     "chunk offsets < 2^62 (a consistent file keeps chunks inside the file)"],
    ),
    "C06": dict(
        design_ref="DESIGN.md 5.6",
        level_text="Every leaf / table decoder is run on an arbitrary byte buffer with an arbitrary declared size (up to the buffer = file length) and "
                   "every Mp4Track accessor on arbitrary, not necessarily consistent tables as the decoders can produce them; Kani's implicit checks "
                   "(arithmetic overflow, division by zero, index, unwrap/expect, explicit panic) are the property: any reachable panic in the dev "
                   "profile is a counterexample, and a unit with no failing check behaves identically in release.",
        level_note="Unit level. Decoders that size a heap buffer from the declared size get one harness per concrete size; NAL-carrying records (avcC, hvcC), esds and containers are not run on arbitrary bytes (symbolic-size heap objects / nested symbolic loops do not get through CBMC). JSON/summary rendering outside. " + GLUE,
        bounds="buffers 24..128 bytes (largest two-entry encoding of the type + 8), size <= buffer length, tables <= 2-3 entries with full-range values, sample ids: all u32, sample sizes <= 4 in read_sample",
        outside="to_json/summary/Debug, avcC/hvcC/esds/container decoders on arbitrary bytes, stack depth, allocation failure aborts (C08), Mp4Reader accessors (duration, metadata dispatch)",
        assumptions=COMMON_ASSUME + ["declared box size <= file length (the reader's documented precondition)", "stsc first_sample as derived by the decoder"],
    ),
    "C07": dict(
        design_ref="DESIGN.md 5.7",
        level_text="What a solver can decide is iteration and stream-operation counts, not seconds: every decoder runs through a harness reader "
                   "that counts read/seek calls (asserted <= 4*size+16) with every loop bounded by an unwinding assertion derived from the buffer "
                   "size; container loops run on small arbitrary buffers with at most one iteration per 8 bytes; the intra-chunk lookup loop runs on symbolic samples_per_chunk.",
        level_note="Unit level; CPU time itself is outside. The top-level `s == 0` guard is reader glue. " + GLUE,
        bounds="as C06 for decoders; containers udta/edts/dinf on 24 bytes (quick), mvex/traf on 32 bytes (thorough)",
        outside="CPU time, nested containers beyond 32 bytes, top-level loop",
        assumptions=COMMON_ASSUME + ["declared box size <= buffer length"],
    ),
    "C08": dict(
        design_ref="DESIGN.md 5.8",
        level_text="std::alloc::{alloc, alloc_zeroed, realloc} are replaced (Kani -Z stubbing) by checking stubs, so the size of every heap request the "
                   "real decoder / read_sample code makes becomes a symbolic expression over the input and the solver proves it <= 4n+64 per request "
                   "and <= 16n+256 in total for an n-byte input, or returns the input.",
        level_note="Requests, not live bytes (dealloc is not credited). Unit level as C06. " + GLUE,
        bounds="as C06",
        outside="peak live memory, allocator overhead, avcC/hvcC/esds/containers on arbitrary bytes, top-level `s > file size` check",
        stubs=["std::alloc::alloc -> common::alloc::alloc_stub", "std::alloc::alloc_zeroed -> alloc_zeroed_stub", "std::alloc::realloc -> realloc_stub (each asserts the size, then allocates through the System allocator model)"],
        assumptions=COMMON_ASSUME + ["declared box size <= buffer length"],
    ),
    "C09": dict(
        design_ref="DESIGN.md 5.9",
        level_text="Mp4Track's fragment branches (find_traf_idx_and_sample_idx, sample_size/offset/time/rendering offset, sample_count) run on trafs "
                   "built directly, per shape (1-2 fragments x 1-2 samples x base-data-offset present | default-base-is-moof x tfhd default duration x "
                   "per-sample durations x composition offsets x data offset), all values symbolic (u64 decode times and bases, negative data offsets), "
                   "against a reference written from 14496-12 8.8.",
        level_note="Per track on parsed fragments; attaching trafs / moof offsets to tracks is reader glue. " + GLUE,
        bounds="<= 2 fragments x <= 2 samples, bases / decode times < 2^62, all u32 durations / sizes / cts, i32 data offsets, sample id 1..=count+1",
        outside="more fragments / longer runs, traf without trun or tfdt, attaching fragments in read_header / read_fragment_header",
        assumptions=COMMON_ASSUME + ["runs carry per-sample sizes and a tfdt (the property's precondition)"],
    ),
    "C10": dict(
        design_ref="DESIGN.md 5.10",
        level_text="Harness streams wrap a cursor: the k-th call (read_exact/read/seek/stream_position, or write/seek) fails with an I/O error or a "
                   "zero-length write, k symbolic over all u32; a chunked stream transfers at most c bytes per call (c symbolic 1..4) with one "
                   "interrupted call at a symbolic index and does not override read_exact/write_all. Asserted per unit (decoders on reference bytes "
                   "of symbolic values, read_sample, encoders, write_sample+flush, Mp4Writer write_start/write_end): fault fired <=> result is "
                   "Err(IoError); never Ok, never another error, never a panic; short transfers give identical values / bytes.",
        level_note="Per unit, not per whole-file parse (out of reach). " + GLUE,
        bounds="one fault per run at any call index; units listed in coverage.per_harness; transfers down to one byte per call",
        outside="several faults in one run, whole-file parsing, containers beyond the listed ones",
        assumptions=COMMON_ASSUME,
    ),
    "C11": dict(
        design_ref="DESIGN.md 5.11",
        level_text="The reference encoding of a symbolic value (concrete shape) is cut at a symbolic position c < length and decoded with the real "
                   "BoxHeader::read + read_box from a cursor over the prefix: the result is an error or a value equal to the original; read_sample on a "
                   "consistent two-sample track over a stream cut at a symbolic position is an error or identical in bytes and timing.",
        level_note="Unit level (box decode, container required children, sample payload). Prefixes of whole files through read_header are reader glue. " + GLUE,
        bounds="every cut position of the listed box encodings (<= 128 bytes) and of a 16-byte sample stream",
        outside="whole-file prefixes, moov-last layouts through read_header",
        assumptions=COMMON_ASSUME,
    ),
    "C12": dict(
        design_ref="DESIGN.md 5.12",
        level_text="Metamorphic pairs per unit with symbolic transformation parameters: 0..4 spare bytes after the last field (size enlarged), the "
                   "64-bit size-header form in front of the same payload, an unknown box of symbolic type inserted between the children of a container, "
                   "siblings in another order, chunk offsets shifted by a symbolic layout change: equal parse result, cursor at the end of the box, "
                   "sample offsets shifted by exactly the change.",
        level_note="Unit level; top-level insertions and mdat before/after moov are reader glue. " + GLUE,
        bounds="the listed leaf/table boxes and the mvex / traf containers; unknown box payload 0..4 bytes; 2 chunks / 3 samples for the shift",
        outside="top level, deep containers (trak/mdia/minf/stbl), ilst",
        assumptions=COMMON_ASSUME + ["the inserted box type is not one the crate knows (first byte 'z')"],
    ),
    "C15": dict(
        design_ref="DESIGN.md 5.15",
        level_text="Two-run relational harnesses on the same symbolic inputs: read_sample(k) from a fresh cursor vs from a cursor that was seeked to "
                   "an arbitrary position and then served another (possibly failing) read; the track-writer pipeline and the zero-track Mp4Writer "
                   "pipeline run twice (tables, durations, bytes identical); decoders run twice on the same arbitrary bytes.",
        level_note="All lookups take &self and the types have no interior mutability (syntactic scan recorded in the evidence), so the stream position is the only history channel. Hash-order nondeterminism would only be seen if Kani models it as nondeterministic. " + GLUE,
        bounds="2-sample track, 16-byte stream, one earlier call; K=1 mux history; 40..112-byte buffers for parsing",
        outside="interleaving across tracks (track map), longer call histories (covered by the no-hidden-state argument, not by the solver)",
        assumptions=COMMON_ASSUME,
    ),
    "C13": dict(
        design_ref="DESIGN.md 5.13",
        level_text="The 4 GiB boundaries are reached symbolically: the output is a position-only sparse stream whose start offset and payload gap are "
                   "symbolic (< 2^40), so below / at / above 2^32 are values of one query: mdat size patch of the real Mp4Writer, chunk offset + "
                   "co64/stco choice of the real track writer, header versions vs durations, and BoxHeader write->read over sizes 8..2^62.",
        level_note="mvhd's version switch inside Mp4Writer::write_end needs a track in the writer, which does not get through CBMC; it is three lines and is not covered.",
        bounds="start offset and gap < 2^40, one sample with a full-range u32 duration and symbolic timescales (two samples time out), one chunk",
        outside="mvhd version in Mp4Writer::write_end, several chunks, reading the result back with Mp4Reader",
        assumptions=COMMON_ASSUME + ["the sparse stream stands for a seekable file (positions only)"],
    ),
    "C14": dict(
        design_ref="DESIGN.md 5.14",
        level_text="Symbolic TrackConfig (u16 dimensions, timescale >= 1, 3 symbolic lowercase letters, symbolic SPS/PPS bytes, every audio object type x "
                   "frequency index x channel configuration, symbolic bitrate) through the real Mp4TrackWriter::new and back out through the real "
                   "Mp4Track accessors; the AAC sample entry additionally through the real encoder and decoder; Mp4Config through write_start/"
                   "write_end and the real ftyp/mvhd decoders; reported durations within one tick.",
        level_note="In-memory + wire round trip of the boxes involved (C04 covers tkhd/mdhd/hdlr/stsd codecs). " + GLUE,
        bounds="SPS 5 bytes, PPS 2 bytes, 0/2 compatible brands, K<=2 samples (3 thorough) with durations and timescales < 2^20 for the one-tick check",
        outside="reopening with Mp4Reader, HEVC/VP9 codec parameter contents (the config only carries dimensions)",
        assumptions=COMMON_ASSUME,
    ),
    "C17": dict(
        design_ref="DESIGN.md 5.17",
        level_text="Kani's implicit panic checks on the muxer units with no domain restriction: Mp4TrackWriter::new for parameter sets of 0..5 bytes, "
                   "languages of 0..4 bytes (incl. non-ASCII), any timescale / dimensions / ids; write_sample x K<=2 with full-range sample fields and "
                   "timescales (0 included) + flush; write_end with any 32-bit maximal sample size + encoding of the touched sample entry; Mp4Writer "
                   "with no tracks: any track id, write_end.",
        level_note="Mp4Writer with >= 1 track does not get through CBMC (excluded x_ harnesses kept for reference); its dispatch is a bounds-checked Vec index.",
        bounds="K<=2 (3 thorough) calls, payload <= 2 bytes, parameter sets <= 5 bytes",
        outside="Mp4Writer::write_sample with tracks present, very large payloads as real Bytes values",
        assumptions=COMMON_ASSUME,
    ),
    "C18": dict(
        design_ref="DESIGN.md 5.18",
        level_text="The real MetaBox / IlstBox / IlstItemBox / DataBox decoders run on reference-encoded input with symbolic payloads (meta with and "
                   "without the version/flags word, symbolic non-mdir handler, mdir without ilst, empty ilst, unknown items of symbolic type) and the "
                   "real Metadata impls run on what they return: absence cases (no udta, no meta, other handler, mdir without ilst) and the value-level item "
                   "conversions (binary year of 0/3/4/5 bytes, other data types) in the quick tier, the 8-byte binary item in the thorough tier. "
                   "Presence through the HashMap (x_h18one), the empty / unknown-only item list and text items (from_utf8_lossy, parse) do not "
                   "finish and are excluded (listed in the evidence under excluded_harnesses).",
        level_note="Mp4Reader::metadata() only selects moov.udta.meta(mdir).ilst; that selection is re-stated in the harness (reader glue is outside). Lists with more than one known item, long payloads and lossy UTF-8 decoding are outside. " + GLUE,
        bounds="item payloads of 0, 3, 4, 5 (thorough: 8) symbolic bytes after a 2-byte unknown child; meta with/without version word; symbolic non-mdir handler",
        outside="the key-to-item HashMap wiring (any list with a known item), empty and unknown-only item lists, text-typed items, payloads > 8 bytes, invalid UTF-8, Mp4Reader::metadata() on a real reader",
        assumptions=COMMON_ASSUME + ["text payloads are ASCII"],
    ),
    "C16": dict(
        design_ref="DESIGN.md 5.16",
        level_text="Each mapping is decided by one or two SAT queries whose single symbolic input ranges over the "
                   "mapping's complete domain (2^32 codes, 2^16 pairs, all u8/u16/u32 raw values), against tables "
                   "written from the specifications. For a finite total function this is the whole property, not a sample.",
        level_note="Trusted: Kani codegen, CBMC, CaDiCaL, the oracle tables in kani/src/c16.rs. Outside: Display/Debug text of FourCC/BoxType.",
        bounds="complete domains: all 2^32 four-character codes, all 2^16 (profile, compat) pairs, all u8/u16/u32 raw values; "
               "FromStr on strings of 0..=6 symbolic bytes; language strings of exactly 3 symbolic bytes",
        outside="textual rendering (Display/Debug/to_string) of FourCC/BoxType: fmt machinery does not finish in CBMC",
        assumptions=COMMON_ASSUME + ["oracle tables in kani/src/c16.rs written from ISO/IEC 14496-12/-3/-10 Annex A"],
    ),
}


def get(pid):
    return PROPS[pid]
